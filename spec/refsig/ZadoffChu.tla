----------------------------- MODULE ZadoffChu -----------------------------
(* C18 - reference sequences are CAZAC; pilot based channel estimation is exact.

   What is modelled (pyphysim.reference_signals.{zadoffchu, root_sequence, srs, dmrs,
   channel_estimation} and pyphysim.channel_estimation.estimators):

   * A sequence element of unit modulus is represented by its PHASE EXPONENT: the integer
     e (mod 2N) stands for exp(-j pi e / N).  A Zadoff-Chu root sequence of odd length N
     and root u is  e(n) = u n (n+1) mod 2N  (3GPP 36.211, x_q(m) = exp(-j pi q m (m+1) / N)).
     Constant amplitude is therefore structural (an exponent is a point of the unit
     circle; the value -1 is reserved for "amplitude zero", which only a deviating machine
     produces).  Products of elements add exponents, conjugation negates them, and a sum of
     roots of unity is zero exactly when its coefficient vector is a multiple of the
     all-ones vector (N prime: the minimal polynomial of exp(2 pi j / N) is 1 + x + ... +
     x^(N-1)), or, for the 8th / 12th roots of unity of the cyclic shifts, when it reduces to
     zero in Z[zeta_8] / Z[zeta_12].  All laws below are decided on exponents: no
     floating point.

   * One "star" machine: `Init` picks nothing, `Next` picks one case of one family
     (calcBaseZC, get_extended_ZF, RootSequence incl. the prime table,
     SrsUeSequence / DmrsUeSequence, the orthogonality of two cyclic shifts,
     compute_ls_estimation, CazacBased[WithOCC]ChannelEstimator) and computes what the
     code computes, step by step as the code does (table lookup, index map of the
     extension, phase ramp, de-rotation + IDFT as a cyclic move of taps, tap window,
     normal equations with the adjugate).  The properties are written separately, from the
     statement of C18, as invariants over the case record.

   * The CAZAC estimators are modelled exactly in the TAP domain (Gaussian integer taps):
     multiplying by conj(r) and taking the IDFT moves the taps of the user on cyclic shift
     c_o to the positions  l + (c_t - c_o) L / D  (mod L), the window keeps positions
     0..K, the cover code averages with weight <occ_t, occ_o> / 2.  Only the final DFT is
     numerical; that part is evaluated by the harness (marked "(rel)" there).

   Named deviations (fields of Dev).  PrimeTableEndsAt1009 is how /repo is today; the
   others are plausible regressions used to show that the invariants are not vacuous.
   With all flags FALSE every invariant holds.                                            *)
EXTENDS Integers, Sequences, FiniteSets, TLC, Emit

CONSTANTS
  Kinds,       \* enabled case families, subset of
               \*   {"prime","zc","ext","root","ue","shift","ls","est"}
  Dev,         \* (+ NormalizeFlagSplit, ExtraDimByIdentity, and the RefSession flags)
               \* [PrimeTableEndsAt1009, ZeroPadExtension, NSquaredPhase, ShiftDenominator8,
               \*  TapWindowOffByOne, LsGramNotConjugated : BOOLEAN]
  Seed,        \* seeds the in-spec LCG
  MaxSize,     \* largest sequence size of the numerology (1200)
  PrimeSizes,  \* sizes for the prime-selection family
  ZcNs,        \* odd lengths N >= 3 for the CAZAC algebra (all roots 1..N-1)
  SpecMax,     \* the spectrum law is evaluated for prime N <= SpecMax
  ExtNs,       \* base lengths for get_extended_ZF (sizes N .. 3N+2)
  RootSizes,   \* sizes for RootSequence(u, size) with probed positions
  RootFull,    \* subset of RootSizes emitted with every position
  UeSizes,     \* sizes for SrsUeSequence / DmrsUeSequence
  ShiftLs,     \* lengths for the orthogonality law
  ShiftDs,     \* subset of {8, 12}
  NLs,         \* number of seeded least-squares cases
  EstFams,     \* subset of {"srs", "dmrs", "occ"}
  EstLs,       \* lengths of the estimator scenarios (used when a multiple of the number of shifts)
  EstNrx,      \* set of receive antenna counts
  EstVars      \* set of variant numbers (odd = boundary scenario)

VARIABLE c     \* the case record (inputs, what the machine returned)
vars == <<c>>

(* ------------------------------------------------------------------ small helpers --- *)
Min(a, b) == IF a < b THEN a ELSE b
Max(a, b) == IF a < b THEN b ELSE a
Abs(x) == IF x < 0 THEN -x ELSE x
RECURSIVE Gcd(_, _)
Gcd(a, b) == IF b = 0 THEN a ELSE Gcd(b, a % b)
RECURSIVE SumFn(_, _, _)
SumFn(f, lo, hi) == IF lo > hi THEN 0 ELSE f[lo] + SumFn(f, lo + 1, hi)

\* j-th number (1..65536) of pseudo-random stream k; Pick: a number in 0..n-1
Rnd(k, j)     == LcgIter(LcgStart(Seed, k % 19000), j)
Pick(k, j, n) == (Rnd(k, j) \div 7) % n

(* ===================================================================== primes ====== *)
\* Declarative primality (trial division up to the square root).
RootBound == CHOOSE r \in 1..MaxSize : r * r > MaxSize /\ (r - 1) * (r - 1) <= MaxSize
IsPrime(n) == n > 1 /\ \A d \in 2..RootBound : d * d > n \/ n % d # 0
\* What the property demands: the largest prime not exceeding n.
IsLargestPrimeLE(p, n) == /\ IsPrime(p) /\ p <= n
                          /\ \A q \in (p + 1)..n : ~IsPrime(q)
LargestPrimeLE(n) == CHOOSE p \in 2..n : IsLargestPrimeLE(p, n)

\* What the code does: a stored, sorted table of primes; the last entry not above the size.
TableEnd == IF Dev.PrimeTableEndsAt1009 THEN 1009 ELSE MaxSize
RECURSIVE PrimesUpTo(_, _)
PrimesUpTo(n, acc) == IF n < 2 THEN acc
                      ELSE PrimesUpTo(n - 1, IF IsPrime(n) THEN <<n>> \o acc ELSE acc)
PrimeTable == PrimesUpTo(TableEnd, <<>>)          \* constant: evaluated once by TLC
TablePick(size) == PrimeTable[Cardinality({i \in 1..Len(PrimeTable) : PrimeTable[i] <= size})]

(* ============================================================ Zadoff-Chu exponents == *)
\* calcBaseZC(N, u, q): element n is exp(-j pi u n (n + 1 + 2q) / N); q = 0 is the root sequence
ZcExpQ(N, u, q, n) == IF Dev.NSquaredPhase THEN (((u * n) % (2 * N)) * (n + 2 * q)) % (2 * N)
                      ELSE (((u * n) % (2 * N)) * (n + 1 + 2 * q)) % (2 * N)
ZcExp(N, u, n) == ZcExpQ(N, u, 0, n)
ZcSeqQ(N, u, q) == TLCEval([i \in 1..N |-> ZcExpQ(N, u, q, i - 1)])     \* 1-based: position i-1
ZcSeq(N, u) == ZcSeqQ(N, u, 0)

\* get_extended_ZF(root, size): position i (0-based) takes root position i mod N
ExtSrc(N, i) == IF Dev.ZeroPadExtension /\ i >= N THEN -1 ELSE i % N
ExtSeq(base, size) == LET N == Len(base) IN
  TLCEval([i \in 1..size |-> IF ExtSrc(N, i - 1) < 0 THEN -1 ELSE base[ExtSrc(N, i - 1) + 1]])

\* get_shifted_root_seq(root, n_cs, D): element k is multiplied by exp(+j 2 pi n_cs k / D);
\* the ramp exponent is (n_cs k) mod D in units of 2 pi / D
RampDen(D) == IF Dev.ShiftDenominator8 THEN 8 ELSE D
Ramp(ncs, D, size) == TLCEval([i \in 1..size |-> (ncs * (i - 1)) % RampDen(D)])

(* ---- exact zero test for a sum of 2N-th roots of unity, N an odd prime -------------- *)
\* exponent t (mod 2N) is +w^r for t = 2r and -w^r for t = 2r + N  (w = exp(-2 pi j / N))
RECURSIVE CoefAcc(_, _, _, _)
CoefAcc(N, ts, i, f) ==
  IF i > N THEN f
  ELSE LET t == ts[i]
           r == IF t % 2 = 0 THEN t \div 2 ELSE ((t + N) % (2 * N)) \div 2
           s == IF t % 2 = 0 THEN 1 ELSE -1
       IN CoefAcc(N, ts, i + 1, [f EXCEPT ![r] = @ + s])
CoefVec(N, ts) == CoefAcc(N, ts, 1, [r \in 0..(N - 1) |-> 0])
AllEqual(f) == LET j0 == CHOOSE j \in DOMAIN f : TRUE IN \A i \in DOMAIN f : f[i] = f[j0]
ZeroSumPrime(N, ts) == AllEqual(CoefVec(N, ts))

\* cyclic autocorrelation at lag tau: term n has exponent e(n) - e(n + tau mod N)
Diffs(e, tau) == LET N == Len(e) IN
  TLCEval([i \in 1..N |-> (e[i] - e[((i - 1 + tau) % N) + 1]) % (2 * N)])

\* The structure the property rests on (any odd N): with g = gcd(u tau, N) the N differences are
\* the N/g members of one coset of the subgroup generated by 2g in Z_2N, each taken g times.
\* The sum over such a multiset is g times a full set of (N/g)-th roots of unity: zero iff g < N.
CosetLaw(e, u, tau) ==
  LET N == Len(e)
      d == Diffs(e, tau)
      g == Gcd((u * tau) % N, N)          \* Gcd(0, N) = N
      S == {d[i] : i \in 1..N}
  IN /\ Cardinality(S) = N \div g
     /\ \A a \in S : (a - d[1]) % (2 * g) = 0
     /\ g = 1 \/ \A a \in S : Cardinality({i \in 1..N : d[i] = a}) = g
AutoZero(e, u, tau) == Gcd((u * tau) % Len(e), Len(e)) < Len(e)     \* iff u tau # 0 mod N

\* flat spectrum: X[k] = sum_n x[n] w^(k n) as a coefficient vector b; |X[k]|^2 has the
\* coefficients cc[m] = sum_i b[i] b[(i - m) mod N]; it equals N iff cc - N delta_0 is constant
SpecCoef(N, e, k) == CoefVec(N, [i \in 1..N |-> (e[i] + 2 * k * (i - 1)) % (2 * N)])
PowerCoef(N, b) == [m \in 0..(N - 1) |-> SumFn([i \in 0..(N - 1) |-> b[i] * b[(i - m) % N]], 0, N - 1)]
FlatAt(N, e, k) == LET cc == PowerCoef(N, SpecCoef(N, e, k))
                   IN AllEqual([m \in 0..(N - 1) |-> IF m = 0 THEN cc[0] - N ELSE cc[m]])

(* ---- exact zero test in Z[zeta_8] and Z[zeta_12] (cyclic shifts) -------------------- *)
RECURSIVE CountAcc(_, _, _, _)
CountAcc(ts, n, i, f) == IF i > n THEN f ELSE CountAcc(ts, n, i + 1, [f EXCEPT ![ts[i]] = @ + 1])
Count(D, ts) == CountAcc(ts, Len(ts), 1, [r \in 0..(D - 1) |-> 0])
ZeroSum8(q)  == \A r \in 0..3 : q[r] = q[r + 4]                       \* zeta^4 = -1
ZeroSum12(q) == LET a == [r \in 0..5 |-> q[r] - q[r + 6]]             \* zeta^6 = -1
                IN \* zeta^4 = zeta^2 - 1, zeta^5 = zeta^3 - zeta ; basis 1, zeta, zeta^2, zeta^3
                   a[0] = a[4] /\ a[1] = a[5] /\ a[2] = -a[4] /\ a[3] = -a[5]
ZeroSumD(D, ts) == IF D = 8 THEN ZeroSum8(Count(8, ts)) ELSE ZeroSum12(Count(12, ts))

(* ================================================================ Gaussian integers == *)
GZero == <<0, 0>>
GAdd(a, b) == <<a[1] + b[1], a[2] + b[2]>>
GSub(a, b) == <<a[1] - b[1], a[2] - b[2]>>
GMul(a, b) == <<a[1] * b[1] - a[2] * b[2], a[1] * b[2] + a[2] * b[1]>>
GConj(a)   == <<a[1], -a[2]>>
GScale(k, a) == <<k * a[1], k * a[2]>>
RECURSIVE GSumFn(_, _, _)
GSumFn(f, lo, hi) == IF lo > hi THEN GZero ELSE GAdd(f[lo], GSumFn(f, lo + 1, hi))
\* (TLCEval makes TLC compute a function once instead of re-evaluating its body at every application)
MatMul(A, B) == TLCEval([i \in 1..Len(A) |-> TLCEval([j \in 1..Len(B[1]) |->
                   GSumFn([k \in 1..Len(B) |-> GMul(A[i][k], B[k][j])], 1, Len(B))])])
Transp(A) == TLCEval([j \in 1..Len(A[1]) |-> TLCEval([i \in 1..Len(A) |-> A[i][j]])])
Herm(A)   == TLCEval([j \in 1..Len(A[1]) |-> TLCEval([i \in 1..Len(A) |-> GConj(A[i][j])])])
Det2(a, b, cc, d) == GSub(GMul(a, d), GMul(b, cc))
Others(k) == IF k = 1 THEN <<2, 3>> ELSE IF k = 2 THEN <<1, 3>> ELSE <<1, 2>>
Minor3(G, r, s) == LET R == Others(r)  S == Others(s)
                   IN Det2(G[R[1]][S[1]], G[R[1]][S[2]], G[R[2]][S[1]], G[R[2]][S[2]])
Det(G) == IF Len(G) = 1 THEN G[1][1]
          ELSE IF Len(G) = 2 THEN Det2(G[1][1], G[1][2], G[2][1], G[2][2])
          ELSE GAdd(GSub(GMul(G[1][1], Minor3(G, 1, 1)), GMul(G[1][2], Minor3(G, 1, 2))),
                    GMul(G[1][3], Minor3(G, 1, 3)))
Adj(G) == IF Len(G) = 1 THEN << << <<1, 0>> >> >>
          ELSE IF Len(G) = 2 THEN << <<G[2][2], GSub(GZero, G[1][2])>>, <<GSub(GZero, G[2][1]), G[1][1]>> >>
          ELSE TLCEval([i \in 1..3 |-> TLCEval([j \in 1..3 |->
                  GScale(IF (i + j) % 2 = 0 THEN 1 ELSE -1, Minor3(G, j, i))])])
\* small Gaussian integer from two stream positions
GRnd(k, j, lo, hi) == <<lo + Pick(k, j, hi - lo + 1), lo + Pick(k, j + 1, hi - lo + 1)>>
GNonZero(g) == IF g = GZero THEN <<1, 0>> ELSE g

(* ========================================================================= families == *)
(* Every action has the form  c' = Rec(arguments)  with Rec a state-level operator: TLC caches the
   LET definitions of state-level expressions but re-evaluates those of an action at every use.       *)
Init == c = [kind |-> "init"]
Fresh == c.kind = "init"

(* ---- prime selection: RootSequence._get_largest_prime_lower_than_number(size) -------- *)
PrimeCase == /\ "prime" \in Kinds /\ Fresh
             /\ \E s \in PrimeSizes : c' = [kind |-> "prime", size |-> s, nzc |-> TablePick(s)]

(* ---- calcBaseZC(N, u) for every root of every length in ZcNs ------------------------ *)
ZcCase == /\ "zc" \in Kinds /\ Fresh
          /\ \E N \in ZcNs : \E u \in 1..(N - 1) :
               c' = [kind |-> "zc", n |-> N, u |-> u, e |-> ZcSeq(N, u)]

(* ---- get_extended_ZF(calcBaseZC(N, u), size), N <= size <= 3N + 2 ------------------- *)
ExtRec(N, size, w) == LET u == IF w = 1 THEN 1 ELSE 1 + Pick(N, 1, N - 1)
                      IN [kind |-> "ext", n |-> N, u |-> u, size |-> size, e |-> ExtSeq(ZcSeq(N, u), size)]
ExtCase == /\ "ext" \in Kinds /\ Fresh
           /\ \E N \in ExtNs : \E size \in N..(3 * N + 2) : \E w \in 1..2 : c' = ExtRec(N, size, w)

(* ---- RootSequence(u, size): table lookup, base sequence, cyclic extension ------------ *)
RootU(size, nzc) == 1 + Pick(size, 2, nzc - 1)
ProbeIdx(size, nzc) == {i \in {0, 1, 2, nzc - 2, nzc - 1, nzc, nzc + 1, size - 2, size - 1} : i >= 0 /\ i < size}
RECURSIVE SortedSeq(_)
SortedSeq(S) == IF S = {} THEN <<>> ELSE LET m == CHOOSE x \in S : \A y \in S : x <= y
                                         IN <<m>> \o SortedSeq(S \ {m})
\* w = 1: seeded root; for the sizes emitted completely also the extreme roots 1 (w = 2) and Nzc - 1 (w = 3).
\* A complete record carries two lags at which the autocorrelation law is decided on the exponents of THIS
\* length (LargeLengthLags) and the laws the replay must evaluate numerically on the real base sequence.
RootRec(size, w) ==
  LET nzc  == TablePick(size)
      u    == IF w = 1 THEN RootU(size, nzc) ELSE IF w = 2 THEN 1 ELSE nzc - 1
      full == size \in RootFull
      idx  == IF full THEN [i \in 1..size |-> i - 1] ELSE SortedSeq(ProbeIdx(size, nzc))
  IN [kind |-> "root", size |-> size, u |-> u, nzc |-> nzc, idx |-> idx, full |-> full,
      lags |-> IF full THEN <<1, 1 + Pick(size + w, 6, nzc - 1)>> ELSE <<>>,
      req |-> IF full THEN {"ConstantAmplitude", "ZeroAutocorrelation", "FlatSpectrum"} ELSE {},
      e |-> [i \in 1..Len(idx) |-> IF ExtSrc(nzc, idx[i]) < 0 THEN -1
                                    ELSE ZcExp(nzc, u, ExtSrc(nzc, idx[i]))]]
RootCase == /\ "root" \in Kinds /\ Fresh
            /\ \E size \in RootSizes : \E w \in 1..3 : (w = 1 \/ size \in RootFull) /\ c' = RootRec(size, w)

(* ---- boolean options and the FORM of their value ------------------------------------------
   Every boolean option of the sequence and estimator classes (normalize, extra_dimension) can reach the
   code as the Python singleton (form "bool"), as a numpy bool ("np": an element of a parameter array, a
   comparison result) or as an integer 0 / 1 ("int").  Whatever form it has, it means its truth value, and
   all the places that look at one flag must agree: the sequence constructor that normalises, the estimator
   that compensates the normalisation, the estimator that decides whether the cover-code dimension is there. *)
FlagForms == <<"bool", "np", "int">>
ByTruth(val, form) == val                               \* `if flag:`
ByIdentity(val, form) == val /\ form = "bool"           \* `if flag is True:` - only the singleton passes
\* sequence side / estimator side of `normalize`
SeqNormalises(val, form) == ByTruth(val, form)
EstCompensates(val, form) == IF Dev.NormalizeFlagSplit THEN ByIdentity(val, form) ELSE ByTruth(val, form)
\* `extra_dimension is False` (identity) sees a flattened input only for the singleton False
SeesFlattened(extradim, form) == IF Dev.ExtraDimByIdentity THEN (~extradim /\ form = "bool") ELSE ~extradim

(* ---- SrsUeSequence / DmrsUeSequence: root sequence times the phase ramp, cover code,
        optional normalisation (amplitude 1/sqrt(size), reported as norm2 = size) --------- *)
Covers == << <<>>, <<1, 1>>, <<1, -1>>, <<-1, 1>> >>
UeRec(fam, size, nrm, cv, ncs) ==
  LET D   == IF fam = "srs" THEN 8 ELSE 12
      nzc == TablePick(size)
      u   == 1 + Pick(size + 7 * ncs, 3, nzc - 1)
  IN [kind |-> "ue", fam |-> fam, size |-> size, u |-> u, nzc |-> nzc, ncs |-> ncs,
      den |-> D, rden |-> RampDen(D), cover |-> Covers[cv], normalize |-> nrm,
      flagform |-> FlagForms[1 + Pick(size + 5 * ncs + cv, 7, 3)],
      norm2 |-> IF SeqNormalises(nrm, FlagForms[1 + Pick(size + 5 * ncs + cv, 7, 3)]) THEN size ELSE 1,
      e |-> ExtSeq(ZcSeq(nzc, u), size), ramp |-> Ramp(ncs, D, size)]
UeCase == /\ "ue" \in Kinds /\ Fresh
          /\ \E fam \in {"srs", "dmrs"} : \E size \in UeSizes : \E nrm \in BOOLEAN :
             \E cv \in 1..(IF fam = "srs" THEN 1 ELSE 4) : \E ncs \in 0..((IF fam = "srs" THEN 8 ELSE 12) - 1) :
                c' = UeRec(fam, size, nrm, cv, ncs)

(* ---- two users of one root on shifts a # b: the inner product is the sum of the ramp
        differences (the root cancels, |root| = 1) ------------------------------------------ *)
ShiftRec(D, L, a, b) ==
  LET ra == Ramp(a, D, L)
      rb == Ramp(b, D, L)
      df == TLCEval([i \in 1..L |-> (ra[i] - rb[i]) % RampDen(D)])
      \* root used when the pair is built on the real classes (sizes 12 and 24: table row)
      nzc == IF L > 24 THEN TablePick(L) ELSE 0
      u  == IF L > 24 THEN 1 + Pick(L + 3 * a + 13 * b, 4, nzc - 1)
            ELSE Pick(L + 3 * a + 13 * b, 4, 30)
  IN [kind |-> "shift", den |-> D, size |-> L, a |-> a, b |-> b, u |-> u, nzc |-> nzc,
      zero |-> ZeroSumD(RampDen(D), df)]
ShiftCase == /\ "shift" \in Kinds /\ Fresh
             /\ \E D \in ShiftDs : \E L \in ShiftLs : \E a \in 0..(D - 1) : \E b \in 0..(D - 1) :
                  a < b /\ c' = ShiftRec(D, L, a, b)

(* ---- compute_ls_estimation(Y, S) = Y S^H (S S^H)^-1, with the exact inverse adj / det ---- *)
LsDims(i) == [nr |-> 1 + Pick(3000 + i, 1, 4), nt |-> 1 + Pick(3000 + i, 2, 3),
              extra |-> Pick(3000 + i, 3, 3)]                      \* np = nt + extra; 1..4 receive antennas
\* every fourth draw has REAL pilots (+-1 / 0, e.g. Hadamard-like): the replay hands them over as float and as integer arrays too
GRndP(i, k, j) == IF i % 4 = 0 THEN <<-1 + Pick(k, j, 3), 0>> ELSE GRnd(k, j, -1, 1)
LsS(i, r) == LET d == LsDims(i) IN
  TLCEval([a \in 1..d.nt |-> TLCEval([p \in 1..(d.nt + d.extra) |-> GRndP(i, 3000 + i + 500 * r, 10 + 2 * (a * 6 + p))])])
LsH(i, r) == LET d == LsDims(i) IN
  TLCEval([a \in 1..d.nr |-> TLCEval([b \in 1..d.nt |-> GRnd(3300 + 7 * i + r, 10 + 2 * (a * 3 + b), -2, 2)])])
Gram(S) == IF Dev.LsGramNotConjugated THEN MatMul(S, Transp(S)) ELSE MatMul(S, Herm(S))
LsS2(i, form) == IF form = "3d-each" THEN LsS(i, 1) ELSE LsS(i, 0)   \* pilots of the second realisation
LsS3(i, form) == IF form = "3d-each" THEN LsS(i, 2) ELSE LsS(i, 0)   \* ... and of the third
\* full row rank of the pilots (else: not a case of the property)
LsOk(i, form) == /\ Det(MatMul(LsS(i, 0), Herm(LsS(i, 0)))) # GZero
                 /\ Det(MatMul(LsS2(i, form), Herm(LsS2(i, form)))) # GZero
                 /\ Det(MatMul(LsS3(i, form), Herm(LsS3(i, form)))) # GZero
                 /\ Det(Gram(LsS(i, 0))) # GZero
\* The least-squares law is scale covariant: H_hat(H (c S), c S) = H for every c # 0.  Exact factors for
\* TLC (Gaussian integers), and the rational factors <<p, q>> the replay additionally scales the pilots with
\* (the observation is rebuilt from the scaled pilots, the expected channel does not change)
ExactFactors == { <<3, 0>>, <<1, 2>>, <<0, -1>> }
ObsScales == << <<1, 1000000000>>, <<1, 1000000>>, <<1, 1000>>, <<1000, 1>>, <<1000000, 1>> >>
ScaleMat(cf, A) == TLCEval([i \in 1..Len(A) |-> TLCEval([j \in 1..Len(A[1]) |-> GMul(cf, A[i][j])])])
LsNumDen(H, S) == LET G == Gram(S) IN [num |-> MatMul(MatMul(MatMul(H, S), Herm(S)), Adj(G)), den |-> Det(G)]
LsRec(i, form) ==
  LET S  == LsS(i, 0)
      G  == Gram(S)
      H  == LsH(i, 0)
      Y  == MatMul(H, S)
      S2 == LsS2(i, form)
      H2 == LsH(i, 1)
      S3 == LsS3(i, form)
      H3 == LsH(i, 2)
  IN [kind |-> "ls", id |-> i, form |-> form, s |-> S, h |-> H, y |-> Y,
      s2 |-> S2, h2 |-> H2, y2 |-> MatMul(H2, S2), s3 |-> S3, h3 |-> H3, y3 |-> MatMul(H3, S3),
      num |-> MatMul(MatMul(Y, Herm(S)), Adj(G)), den |-> Det(G), scales |-> ObsScales]
LsCase == /\ "ls" \in Kinds /\ Fresh
          /\ \E i \in 1..NLs : \E form \in {"2d", "3d-shared", "3d-each"} :
               LsOk(i, form) /\ c' = LsRec(i, form)

(* ---- CAZAC estimators in the tap domain ------------------------------------------------ *)
DOf(f) == IF f = "srs" THEN 8 ELSE 12
FamIdx(f) == IF f = "srs" THEN 1 ELSE IF f = "dmrs" THEN 2 ELSE 3
Cov2 == << <<1, 1>>, <<1, -1>>, <<-1, 1>>, <<-1, -1>> >>
Dot2(a, b) == a[1] * b[1] + a[2] * b[2]

\* `ov` lets a caller fix what an existing object already determines (RefSession.tla: the estimator
\* belongs to a user with a given shift, cover code, normalisation, and to a root with a given index):
\* [has |-> FALSE] or [has |-> TRUE, ct, cover, normalize, asarray, mult, u, kw (0 = seeded)]
NoOv == [has |-> FALSE]
ScenStream(f, L, nrx, v, ov) == 5000 + FamIdx(f) * 3001 + L * 17 + nrx * 5 + v * 131 + (IF ov.has THEN 7 * ov.ct ELSE 0)
ScenKw(f, L, nrx, v, ov) == IF ov.has /\ ov.kw > 0 THEN ov.kw ELSE 1 + Pick(ScenStream(f, L, nrx, v, ov), 4, 2)
\* the number of kept taps of a scenario (num_taps_to_keep), cheap to evaluate on its own
ScenKeep(f, L, nrx, v, ov) ==
  LET kw == ScenKw(f, L, nrx, v, ov)  W == L \div DOf(f)
  IN IF v % 2 = 1 \/ v % 4 = 2 THEN kw * W - 1 ELSE Pick(ScenStream(f, L, nrx, v, ov), 5, kw * W)
ScenarioX(f, L, nrx, v, ov) ==
  LET k     == ScenStream(f, L, nrx, v, ov)
      D     == DOf(f)
      W     == L \div D
      \* a length that is not a multiple of the number of shifts: the shifts are not orthogonal, the property then
      \* speaks about the single user (and, with cover codes, a same-shift user with an orthogonal code)
      solo  == L % D # 0
      tight == v % 2 = 1
      \* v = 2 mod 4: DENSE channels - the target has a tap at EVERY kept delay 0..K and the user in the window just
      \* above fills its whole window; v = 0 mod 4: seeded, 1 .. N/8 taps
      dense == v % 4 = 2
      kw    == ScenKw(f, L, nrx, v, ov)                  \* the target may use kw shift windows
      K     == ScenKeep(f, L, nrx, v, ov)
      ct    == IF ov.has THEN ov.ct ELSE Pick(k, 3, D)
      nt    == IF dense THEN K + 1
               ELSE IF tight THEN 1 + Pick(k, 6, Min(3, K + 1))
               ELSE 1 + Pick(k, 6, Min(K + 1, Max(1, L \div 8)))
      d0    == IF dense THEN 0 ELSE IF tight THEN K ELSE Pick(k, 7, K + 1)
      st    == IF dense THEN 1 ELSE 1 + Pick(k, 8, Max(1, (K + 1) \div nt))
      tap(t, kk, base) == [d |-> base, v |-> TLCEval([a \in 1..nrx |-> GNonZero(GRnd(kk + 3 * t, 20 + 8 * a, -3, 3))])]
      ttaps == TLCEval([t \in 1..nt |-> tap(t, k, (d0 + (t - 1) * st) % (K + 1))])
      tcov  == IF f # "occ" THEN <<>> ELSE IF ov.has THEN ov.cover ELSE Cov2[1 + Pick(k, 9, 4)]
      \* boundary scenarios: user 1 sits in the window just above the kept taps with a tap at its delay 0
      \* (position K + 1), user 2 in the last window with a tap at its last delay (position L - 1)
      ni    == IF solo THEN 0 ELSE IF tight THEN 2 + Pick(k, 10, 2) ELSE IF dense THEN 1 + Pick(k, 10, 3) ELSE Pick(k, 10, 4)
      off   == IF tight \/ dense THEN 0 ELSE Pick(k, 11, D - kw)
      intf(q) == LET rel == IF tight /\ q = 2 THEN D - 1
                            ELSE kw + ((off + q - 1) % (D - kw))    \* window index of this user
                     nq  == IF dense /\ q = 1 THEN W ELSE 1 + Pick(k + q, 12, Min(2, W))
                     q0  == IF (tight \/ dense) /\ q = 1 THEN 0 ELSE IF tight /\ q = 2 THEN W - 1 ELSE Pick(k + q, 13, W)
                 IN [cs |-> (ct - rel) % D, rel |-> rel,
                     cover |-> IF f = "occ" THEN Cov2[1 + Pick(k + q, 14, 4)] ELSE <<>>,
                     taps |-> TLCEval([t \in 1..nq |-> tap(t, k + 40 * q, (q0 + (t - 1)) % W)])]
      \* OCC only: one more user on the SAME shift whose cover code is orthogonal to the target's
      same  == IF f = "occ" /\ Pick(k, 15, 2) = 1
               THEN << [cs |-> ct, rel |-> 0, cover |-> <<tcov[1], -tcov[2]>>,
                        taps |-> TLCEval([t \in 1..Min(2, W) |-> tap(t, k + 700, t - 1)])] >>
               ELSE <<>>
      nzc   == IF L > 24 THEN TablePick(L) ELSE 31
      asarr == IF ov.has THEN ov.asarray ELSE f # "occ" /\ Pick(k, 16, 3) = 0
  IN [fam |-> f, size |-> L, den |-> D, nrx |-> nrx, var |-> v,
      mult |-> IF ov.has THEN ov.mult ELSE IF f = "srs" THEN 1 + Pick(k, 1, 2) ELSE 1,
      asarray |-> asarr,                                   \* hand the estimator a plain array
      normalize |-> IF ov.has THEN ov.normalize ELSE ~asarr /\ Pick(k, 2, 2) = 1,
      extradim |-> Pick(k, 17, 2) = 1,                     \* OCC: 3-d input or flattened
      flagform |-> FlagForms[1 + Pick(k, 19, 3)],          \* the form in which both flags are handed over
      u |-> IF ov.has THEN ov.u ELSE IF L > 24 THEN 1 + Pick(k, 18, nzc - 1) ELSE Pick(k, 18, 30),
      keep |-> K, ct |-> ct, cover |-> tcov, taps |-> ttaps,
      others |-> TLCEval([q \in 1..ni |-> intf(q)]) \o same]

Scenario(f, L, nrx, v) == ScenarioX(f, L, nrx, v, NoOv)

\* position (mod L) at which tap delay l of a user on shift cs appears after the target (shift ct)
\* multiplied by the conjugate of its own sequence and took the IDFT
Pos(L, D, ct, cs, l) == (l + ((ct - cs) % D) * (L \div D)) % L
Weight(sc, o) == IF sc.fam = "occ" THEN Dot2(sc.cover, o.cover) \div 2 ELSE 1
\* the de-rotated IDFT output of antenna a at position p
YTap(sc, a, p) ==
  LET own == [t \in 1..Len(sc.taps) |->
                IF sc.taps[t].d % sc.size = p THEN sc.taps[t].v[a] ELSE GZero]
      oth == [q \in 1..Len(sc.others) |->
                GScale(Weight(sc, sc.others[q]),
                       GSumFn([t \in 1..Len(sc.others[q].taps) |->
                                IF Pos(sc.size, sc.den, sc.ct, sc.others[q].cs, sc.others[q].taps[t].d) = p
                                  THEN sc.others[q].taps[t].v[a] ELSE GZero],
                              1, Len(sc.others[q].taps)))]
  IN GAdd(GSumFn(own, 1, Len(own)), GSumFn(oth, 1, Len(oth)))
KeptUpTo(sc) == IF Dev.TapWindowOffByOne THEN sc.keep + 1 ELSE sc.keep     \* y[0 : keep + 1]
\* estimated impulse response: kept positions only (sparse: the non-zero ones)
EstTaps(sc) == [a \in 1..sc.nrx |->
   LET nz == {p \in 0..Min(KeptUpTo(sc), sc.size - 1) : YTap(sc, a, p) # GZero}
       ps == SortedSeq(nz)
   IN [i \in 1..Len(ps) |-> <<ps[i], YTap(sc, a, ps[i])>>]]

\* what the flags make of the call: the estimate is the kept taps times scaleNum / scaleDen (the estimator multiplies by
\* the size when it believes the sequence is normalised, the sequence has squared amplitude 1 / scaleDen), and the OCC
\* estimator must see the layout the caller used
FlagFields(sc) == [scaleNum |-> IF ~sc.asarray /\ EstCompensates(sc.normalize, sc.flagform) THEN sc.size ELSE 1,
                   scaleDen |-> IF SeqNormalises(sc.normalize, sc.flagform) THEN sc.size ELSE 1,
                   flatSeen |-> SeesFlattened(sc.extradim, sc.flagform)]
EstRec(f, L, nrx, v) == LET sc == Scenario(f, L, nrx, v)
                       IN [kind |-> "est", sc |-> sc, est |-> EstTaps(sc), scales |-> ObsScales, flags |-> FlagFields(sc)]
EstCase == /\ "est" \in Kinds /\ Fresh
           /\ \E f \in EstFams : \E L \in EstLs : \E nrx \in EstNrx : \E v \in EstVars :
                (L > 24 \/ L % DOf(f) = 0) /\ c' = EstRec(f, L, nrx, v)

Next == PrimeCase \/ ZcCase \/ ExtCase \/ RootCase \/ UeCase \/ ShiftCase \/ LsCase \/ EstCase
Spec == Init /\ [][Next]_vars

(* ======================================================================= properties == *)
Is(k) == c.kind = k

\* the base length is the largest prime not exceeding the requested size; by Bertrand's
\* postulate it is more than half of it, so the extension wraps at most once
PrimeIsLargest == (Is("prime") \/ Is("root") \/ Is("ue")) =>
                     /\ IsLargestPrimeLE(c.nzc, c.size)
                     /\ 2 * c.nzc > c.size

\* every element is a point of the unit circle (an exponent), never "amplitude zero"
ConstantAmplitude == (Is("zc") \/ Is("ext") \/ Is("root") \/ Is("root-explicit") \/ Is("ue")) =>
                        \A i \in DOMAIN c.e : c.e[i] \in 0..(2 * (IF Is("zc") \/ Is("ext") THEN c.n ELSE c.nzc) - 1)

\* zero cyclic autocorrelation at every lag with u tau # 0 (mod N), peak N otherwise
ZeroAutocorrelation == Is("zc") =>
   \A tau \in 0..(c.n - 1) :
      /\ CosetLaw(c.e, c.u, tau)
      /\ (tau = 0) => \A i \in 1..c.n : Diffs(c.e, tau)[i] = 0
      /\ IsPrime(c.n) => (ZeroSumPrime(c.n, Diffs(c.e, tau)) <=> AutoZero(c.e, c.u, tau))
      /\ (IsPrime(c.n) /\ tau # 0) => AutoZero(c.e, c.u, tau)

\* the same law at the lengths that are really used (primes to 1193): decided on the exponents of the base part of
\* every completely emitted root sequence at lag 1 and one seeded lag (all lags would be O(N^2) per case)
LargeLengthLags == (Is("root") /\ c.full) =>
   LET base == SubSeq(c.e, 1, c.nzc)
   IN \A i \in 1..Len(c.lags) : CosetLaw(base, c.u, c.lags[i]) /\ AutoZero(base, c.u, c.lags[i])

\* |DFT|^2 = N on every bin
FlatSpectrum == (Is("zc") /\ IsPrime(c.n) /\ c.n <= SpecMax) =>
   \A k \in 0..(c.n - 1) : FlatAt(c.n, c.e, k)

\* the extension repeats the base sequence cyclically; equivalently it continues the formula
CyclicExtension == Is("ext") =>
   /\ Len(c.e) = c.size
   /\ \A i \in 1..c.size : i <= c.n => c.e[i] = ZcSeq(c.n, c.u)[i]
   /\ \A i \in 1..c.size : i > c.n => c.e[i] = c.e[i - c.n]
   /\ \A i \in 1..c.size : c.e[i] = ZcExp(c.n, c.u, i - 1)
RootIsExtendedZc == (Is("root") \/ Is("root-explicit")) =>
   /\ Len(c.e) = Len(c.idx)
   /\ \A i \in 1..Len(c.idx) : c.e[i] = ZcExp(c.nzc, c.u, c.idx[i] % c.nzc)
UeIsShiftedRoot == Is("ue") =>
   /\ \A i \in 1..c.size : c.e[i] = ZcExp(c.nzc, c.u, (i - 1) % c.nzc)
   /\ c.rden = c.den
   /\ \A i \in 1..c.size : c.ramp[i] = (c.ncs * (i - 1)) % c.den

\* two different shifts are orthogonal iff D | (a - b) L; for all pairs together: iff D | L
ShiftOrthogonality == Is("shift") =>
   /\ c.zero <=> ((c.b - c.a) * c.size) % c.den = 0
   /\ (c.size % c.den = 0) => c.zero

\* the normal equations return the channel: Y S^H adj(G) = det(G) H
LsExact == Is("ls") =>
   /\ c.den # GZero
   /\ c.num = [i \in 1..Len(c.h) |-> [j \in 1..Len(c.h[1]) |-> GMul(c.den, c.h[i][j])]]

LsScaleCovariant == Is("ls") =>
   \A cf \in ExactFactors :
      LET r == LsNumDen(c.h, ScaleMat(cf, c.s))
      IN /\ r.den # GZero
         /\ r.num = [i \in 1..Len(c.h) |-> [j \in 1..Len(c.h[1]) |-> GMul(r.den, c.h[i][j])]]

\* scenario assumptions of the property: the target fits in the kept taps, every other user
\* fits in its own shift window and either lies outside the kept taps or is cancelled by its cover
ScenarioOk == Is("est") =>
   LET sc == c.sc IN
   /\ sc.size % sc.den = 0 \/ \A q \in 1..Len(sc.others) : sc.others[q].cs = sc.ct
   /\ \A t \in 1..Len(sc.taps) : sc.taps[t].d \in 0..sc.keep
   /\ \A t1, t2 \in 1..Len(sc.taps) : t1 # t2 => sc.taps[t1].d # sc.taps[t2].d
   /\ \A q \in 1..Len(sc.others) : \A t \in 1..Len(sc.others[q].taps) :
        /\ sc.others[q].taps[t].d \in 0..((sc.size \div sc.den) - 1)
        /\ \/ Pos(sc.size, sc.den, sc.ct, sc.others[q].cs, sc.others[q].taps[t].d) > sc.keep
           \/ Weight(sc, sc.others[q]) = 0
\* the estimated impulse response is the target's, so its DFT is the target's frequency response
EstimateExact == Is("est") =>
   \A a \in 1..c.sc.nrx :
      /\ Len(c.est[a]) = Len(c.sc.taps)
      /\ \A i \in 1..Len(c.est[a]) :
           \E t \in 1..Len(c.sc.taps) : c.sc.taps[t].d = c.est[a][i][1] /\ c.sc.taps[t].v[a] = c.est[a][i][2]

\* every place that looks at a flag takes it for the same thing, whatever the form of its value
FlagAgreement == Is("est") =>
   /\ c.flags.scaleNum = c.flags.scaleDen
   /\ c.sc.fam = "occ" => (c.flags.flatSeen <=> ~c.sc.extradim)

\* the estimators are homogeneous: an observation scaled by cf (every user's taps scaled) gives the estimate
\* scaled by cf - no absolute threshold anywhere
ScaleTaps(cf, taps) == [t \in 1..Len(taps) |-> [d |-> taps[t].d, v |-> [a \in 1..Len(taps[t].v) |-> GMul(cf, taps[t].v[a])]]]
ScaleSc(cf, sc) == [sc EXCEPT !.taps = ScaleTaps(cf, @),
                              !.others = [q \in 1..Len(@) |-> [@[q] EXCEPT !.taps = ScaleTaps(cf, @)]]]
EstimateHomogeneous == Is("est") =>
   \A cf \in ExactFactors : \A a \in 1..c.sc.nrx : \A p \in 0..Min(KeptUpTo(c.sc), c.sc.size - 1) :
      YTap(ScaleSc(cf, c.sc), a, p) = GMul(cf, YTap(c.sc, a, p))

(* ========================================================================= emission == *)
Emit == EmitCase(c')
=============================================================================
