---------------------------- MODULE RefSession ----------------------------
(* C18, histories: the reference-signal objects are USED TOGETHER.  One RootSequence object is shared
   by several user-sequence objects (SRS and DMRS, any shift / cover code / normalisation, created in
   any order), estimator objects are created on those users and each estimator is called several times
   with different numbers of kept taps, different observations (other channel, other interfering
   users, other antenna count) and different layouts of the cover-code dimension.

   What the property needs of such a history (and what no single call can show):
     * frame conditions: creating a user sequence changes neither the root sequence (still the unit
       modulus Zadoff-Chu sequence) nor any user sequence created before (FrameRoot, FrameUsers);
     * every estimate depends on the arguments of THAT call only: the window it applies is the
       requested one, the scaling is the one of its own reference sequence (CallDependsOnArgsOnly);
       what the call must return is then the catalogue entry of ZadoffChu.tla for that scenario
       (`est` record, invariants ScenarioOk / EstimateExact).

   The machine is implementation shaped: `rootDen` is the squared-amplitude denominator of the array
   inside the root object (1 = unit modulus), every user remembers whether its array IS the root's array
   (`alias`) and the amplitude it copied, every estimator remembers the window it built (`win`).  In the
   specified design no user aliases the root and no window is remembered, so the extra fields never move;
   the two deviation flags (Dev.UserCreationAliasesRoot: shift 0 returns the root array itself and
   normalisation works in place; Dev.WindowCachedOnEstimator) make them move and TLC finds the violation.

   Catalogue: from the initial state TLC also emits, for every user descriptor of the alphabet, the exact
   `ue` record (root exponents, ramp, cover, norm2) and, for every (descriptor, estimator option, variant),
   the exact `est` record; replayed histories look the expected observables up there, so session edges
   stay small.                                                                                         *)
EXTENDS ZadoffChu

CONSTANTS SessL,         \* size of the shared root sequence (a multiple of 24 above 24)
          SessAlphabet,  \* set of user descriptors [fam, ncs, cover, normalize]
          MaxUsers, MaxEsts,
          SessVars       \* variants of the estimate call (v % 4 = 1: boundary scenario keeping two shift windows,
                         \*  v % 4 = 3: boundary scenario keeping one, even: seeded)

VARIABLES rootDen, users, ests, phase
svars == <<c, rootDen, users, ests, phase>>

SessU == 1 + Pick(SessL, 5, TablePick(SessL) - 1)              \* root index of the shared RootSequence
DD(d) == IF d.fam = "srs" THEN 8 ELSE 12
EstFam(d) == IF d.fam = "srs" THEN "srs" ELSE IF d.cover = <<>> THEN "dmrs" ELSE "occ"
Norm2(d) == IF d.normalize THEN SessL ELSE 1
\* how an estimator can be created on a user: on the sequence object or on its plain array (then nobody
\* tells the estimator about a normalisation, so only for unnormalised sequences without cover code);
\* comb (size multiplier 2) for SRS only
Opts(d) == {o \in [arr : BOOLEAN, mult : 1..2] :
              /\ o.arr => (~d.normalize /\ d.cover = <<>>)
              /\ o.mult = 2 => d.fam = "srs"}

(* ------------------------------------------------------------------ catalogue ------ *)
UeRecS(d) ==
  LET nzc == TablePick(SessL)
  IN [kind |-> "ue", fam |-> d.fam, size |-> SessL, u |-> SessU, nzc |-> nzc, ncs |-> d.ncs,
      den |-> DD(d), rden |-> RampDen(DD(d)), cover |-> d.cover, normalize |-> d.normalize,
      flagform |-> FlagForms[1 + Pick(SessL + 5 * d.ncs + Len(d.cover), 7, 3)],
      norm2 |-> Norm2(d), e |-> ExtSeq(ZcSeq(nzc, SessU), SessL), ramp |-> Ramp(d.ncs, DD(d), SessL), key |-> d]
NrxOf(v) == 1 + (v % 3)
SessOv(d, o, v) == [has |-> TRUE, ct |-> d.ncs, cover |-> d.cover, normalize |-> d.normalize, asarray |-> o.arr,
                    mult |-> o.mult, u |-> SessU, kw |-> IF v % 4 = 1 THEN 2 ELSE IF v % 4 = 3 THEN 1 ELSE 0]
SessScenario(d, o, v) == ScenarioX(EstFam(d), SessL, NrxOf(v), v, SessOv(d, o, v))
EstRecS(d, o, v) == LET sc == SessScenario(d, o, v)
                    IN [kind |-> "est", sc |-> sc, est |-> EstTaps(sc), scales |-> ObsScales, flags |-> FlagFields(sc),
                        key |-> [d |-> d, o |-> o, v |-> v]]

(* -------------------------------------------------------------------- machine ------ *)
SInit == /\ c = [kind |-> "init"] /\ rootDen = 1 /\ users = <<>> /\ ests = <<>> /\ phase = "run"

Alias(d) == Dev.UserCreationAliasesRoot /\ d.ncs = 0 /\ d.cover = <<>>
\* squared-amplitude denominator of the array a user object holds now
AmpDen(usr, rd) == IF usr.d.normalize THEN SessL ELSE IF usr.alias THEN rd ELSE usr.den

\* SrsUeSequence(root, ncs, normalize) / DmrsUeSequence(root, ncs, cover, normalize) on the shared root
CreateUser(d) ==
  /\ phase = "run" /\ Len(users) < MaxUsers
  /\ rootDen' = IF Alias(d) /\ d.normalize THEN SessL ELSE rootDen      \* in-place normalisation of a shared array
  /\ users' = Append(users, [d |-> d, alias |-> Alias(d), den |-> rootDen, occStale |-> FALSE])
  /\ c' = [kind |-> "s-user", d |-> d, req |-> {"ArgumentsUnchanged", "FrameRoot", "FrameUsers", "EarlierResultsUnchanged"}]
  /\ UNCHANGED <<ests, phase>>

\* CazacBasedChannelEstimator(user | user.seq_array(), size_multiplier) / CazacBasedWithOCCChannelEstimator(user)
CreateEst(i, o) ==
  /\ phase = "run" /\ Len(ests) < MaxEsts /\ i \in 1..Len(users) /\ o \in Opts(users[i].d)
  /\ ests' = Append(ests, [user |-> i, o |-> o, win |-> -1, held |-> "none", refStale |-> FALSE])
  /\ c' = [kind |-> "s-newest", user |-> i, o |-> o,
           req |-> {"ArgumentsUnchanged", "FrameRoot", "FrameUsers", "EarlierResultsUnchanged"}]
  /\ UNCHANGED <<rootDen, users, phase>>

\* estimator j . estimate_channel_freq_domain(observation of variant v, keep(v) [, extra_dimension(v)])
KeepOf(j, v) == ScenKeep(EstFam(users[ests[j].user].d), SessL, NrxOf(v), v, SessOv(users[ests[j].user].d, ests[j].o, v))
Estimate(j, v) ==
  /\ phase = "run" /\ j \in 1..Len(ests)
  /\ ests' = [ests EXCEPT ![j].win = IF Dev.WindowCachedOnEstimator /\ @ < 0 THEN KeepOf(j, v) ELSE @,
                          \* the caller keeps every returned array: a later call must not write into an earlier result
                          ![j].held = IF @ = "none" THEN "ok" ELSE IF Dev.ResultBufferReused THEN "clobbered" ELSE @]
  /\ c' = [kind |-> "s-est", est |-> j, v |-> v, keep |-> KeepOf(j, v),
           req |-> {"ArgumentsUnchanged", "FrameRoot", "FrameUsers", "EarlierResultsUnchanged", "CallDependsOnArgsOnly",
                    "EstimateHomogeneous"},
           \* the window that is applied
           keff |-> IF Dev.WindowCachedOnEstimator /\ ests[j].win >= 0 THEN ests[j].win ELSE KeepOf(j, v),
           \* the estimate is the channel times scaleNum / scaleDen: the estimator multiplies by the size
           \* when it was told the sequence is normalised, the sequence has squared amplitude 1 / AmpDen
           scaleNum |-> IF ests[j].o.arr THEN 1 ELSE Norm2(users[ests[j].user].d),
           scaleDen |-> AmpDen(users[ests[j].user], rootDen)]
  /\ UNCHANGED <<rootDen, users, phase>>

\* The CALLER overwrites, in place, an array it handed to a constructor earlier: the cover-code array of user i
\* (DmrsUeSequence(.., cover_code = a)), the plain reference array of estimator j (CazacBasedChannelEstimator(a, ..)).
\* The object must go on behaving as constructed - it copied the values, or it froze the array and the write is refused.
\* A deviating object kept a view of the caller's buffer and now disagrees with what it transmits / was built for.
OverwriteCover(i) ==
  /\ phase = "run" /\ i \in 1..Len(users) /\ users[i].d.cover # <<>>
  /\ users' = [users EXCEPT ![i].occStale = @ \/ Dev.CoverCodeIsCallersView]
  /\ c' = [kind |-> "s-overwrite-cover", user |-> i,
           req |-> {"ConstructionValuesKept", "FrameRoot", "FrameUsers", "EarlierResultsUnchanged"}]
  /\ UNCHANGED <<rootDen, ests, phase>>
OverwriteRef(j) ==
  /\ phase = "run" /\ j \in 1..Len(ests) /\ ests[j].o.arr
  /\ ests' = [ests EXCEPT ![j].refStale = @ \/ Dev.EstimatorKeepsCallersArray]
  /\ c' = [kind |-> "s-overwrite-ref", est |-> j,
           req |-> {"ConstructionValuesKept", "FrameRoot", "FrameUsers", "EarlierResultsUnchanged"}]
  /\ UNCHANGED <<rootDen, users, phase>>

CatUe(d) == /\ phase = "run" /\ c.kind = "init" /\ phase' = "cat" /\ c' = UeRecS(d)
            /\ UNCHANGED <<rootDen, users, ests>>
CatEst(d, o, v) == /\ phase = "run" /\ c.kind = "init" /\ MaxEsts > 0 /\ phase' = "cat" /\ c' = EstRecS(d, o, v)
                   /\ UNCHANGED <<rootDen, users, ests>>

SNext == \/ \E d \in SessAlphabet : CreateUser(d) \/ CatUe(d)
         \/ \E d \in SessAlphabet : \E o \in Opts(d) : \E v \in SessVars : CatEst(d, o, v)
         \/ \E i \in 1..MaxUsers : \E o \in [arr : BOOLEAN, mult : 1..2] : CreateEst(i, o)
         \/ \E j \in 1..MaxEsts : \E v \in SessVars : Estimate(j, v)
         \/ \E i \in 1..MaxUsers : OverwriteCover(i)
         \/ \E j \in 1..MaxEsts : OverwriteRef(j)

(* ----------------------------------------------------------------- properties ------ *)
\* creating a user leaves the root sequence what it was: unit modulus (its exponents are in every `ue` record)
FrameRoot == rootDen = 1
\* ... and every user created so far keeps the amplitude it was created with
FrameUsers == \A i \in 1..Len(users) : AmpDen(users[i], rootDen) = Norm2(users[i].d)
\* an estimate is a function of the arguments of the call
CallDependsOnArgsOnly == c.kind = "s-est" => (c.keff = c.keep /\ c.scaleNum = c.scaleDen)
\* results handed out earlier stay what they were
EarlierResultsUnchanged == \A j \in 1..Len(ests) : ests[j].held # "clobbered"
\* an object is what it was constructed with, whatever the caller does to its own buffers afterwards
ConstructionValuesKept == /\ \A i \in 1..Len(users) : ~users[i].occStale
                          /\ \A j \in 1..Len(ests) : ~ests[j].refStale
SessTypeOK == /\ Len(users) <= MaxUsers /\ Len(ests) <= MaxEsts /\ phase \in {"run", "cat"}
              /\ \A j \in 1..Len(ests) : ests[j].user \in 1..Len(users)

(* ------------------------------------------------------------------- emission ------ *)
SRec  == [users |-> [i \in 1..Len(users) |-> users[i].d], ests |-> [j \in 1..Len(ests) |-> [user |-> ests[j].user, o |-> ests[j].o]],
          phase |-> phase]
SRecP == [users |-> [i \in 1..Len(users') |-> users'[i].d], ests |-> [j \in 1..Len(ests') |-> [user |-> ests'[j].user, o |-> ests'[j].o]],
          phase |-> phase']
SEmit == EmitEdge([pre |-> SRec, post |-> SRecP, op |-> c'])
=============================================================================
