--------------------------- MODULE Trace_Serialize ---------------------------
(* C17, stage T: behaviours RECORDED on the real encoder/decoder and on real Result objects, for
   seeded random inputs that are NOT restricted to the pools of Serialize.tla (random nesting up to 3,
   lists up to length 4, arrays of random dtype and random shape up to 3-D incl. zero-sized axes,
   random update / MERGE histories up to length 5 with random type mixes), validated by TLC against the same
   functions Enc / Dec / RState of the specification.

   Trace file (JSON array), one event per trace:
     value event : {kind:"value", x: typed value, enc:"ok"|"raise", tree: abstract tree of the JSON text
                    the library wrote, dec:"ok"|"raise", back: typed description of the object the library
                    decoded, tree2: tree of the text written for the decoded object}
     result event: {kind:"result", rd: [name,type,acc,nch,hist], enc, tree, dec, tree2}
   Numbers are exact: the recorder turns every float into the rational it IS (all recorded inputs are
   dyadic with small numerators, so they fit TLC's integers).  JSON has no sets: sets ("elems") arrive
   as arrays and are converted by ValOf / TreeOf.

   All traces are validated in ONE run; `mismatch` names trace id and the first failing clause.     *)
EXTENDS Serialize, IOUtils

Traces == JsonDeserialize(IOEnv.TRACE_FILE)
VARIABLES tid, mismatch
tvars == <<c, tid, mismatch>>

RECURSIVE ValOf(_)
ValOf(x) == CASE x.t = "List"  -> List([i \in 1..Len(x.items) |-> ValOf(x.items[i])])
              [] x.t = "Set"   -> SetV({ValOf(x.elems[i]) : i \in 1..Len(x.elems)})
              [] x.t = "Array" -> Arr(x.dtype, [i \in 1..Len(x.shape) |-> x.shape[i]],
                                      [i \in 1..Len(x.data) |-> <<x.data[i][1], x.data[i][2]>>])
              [] OTHER -> [t |-> x.t, n |-> x.n, d |-> x.d, s |-> x.s]
RECURSIVE TreeOf(_)
TreeOf(x) == CASE x.j = "list" -> JList([i \in 1..Len(x.items) |-> TreeOf(x.items[i])])
               [] x.j = "bag"  -> JBag({TreeOf(x.elems[i]) : i \in 1..Len(x.elems)})
               [] x.j = "obj"  -> JObj([i \in 1..Len(x.keys) |-> x.keys[i]], [i \in 1..Len(x.vals) |-> TreeOf(x.vals[i])])
               [] OTHER -> [j |-> x.j, n |-> x.n, d |-> x.d, s |-> x.s]
RECURSIVE RdOf(_)
RdOf(r) == [name |-> r.name, type |-> r.type, acc |-> r.acc, nch |-> r.nch,
            hist |-> [i \in 1..Len(r.hist) |->
                        IF r.hist[i].op = "merge"
                        THEN [op |-> "merge", v |-> NoneV, tot |-> Num("PyInt", 1, 1), rd |-> <<RdOf(r.hist[i].rd[1])>>]
                        ELSE [op |-> "upd", v |-> ValOf(r.hist[i].v), tot |-> ValOf(r.hist[i].tot), rd |-> <<>>]]]

\* first clause of the specification the recorded event does not satisfy ("" = conforms)
ValueClause(e) ==
  LET x == ValOf(e.x)
  IN  IF e.enc = "raise" THEN "EncodeTotal"
      ELSE LET t == TreeOf(e.tree)
           IN  IF t # Enc(x, Dev0) THEN "Encode"
               ELSE IF e.dec = "raise" THEN "DecodeTotal"
               ELSE LET b == ValOf(e.back)
                    IN  IF b # Dec(t, Dev0) THEN "Decode"
                        ELSE IF ~LibEq(b, x) THEN "RoundTripEq"
                        ELSE IF ~Faithful(b, x) THEN "RoundTripFaithful"
                        ELSE IF TreeOf(e.tree2) # t THEN "DoubleRoundTrip" ELSE ""
ResultClause(e) ==
  LET st == RState(RdOf(e.rd))
  IN  IF e.enc = "raise" THEN "EncodeTotal"
      ELSE LET t == TreeOf(e.tree)
           IN  IF t # EncR(st, Dev0) THEN "Encode"
               ELSE IF e.dec = "raise" THEN "DecodeTotal"
               ELSE IF ~ResFaithful(DecR(t, Dev0), st) THEN "RoundTripFaithful"
               ELSE IF TreeOf(e.tree2) # t THEN "DoubleRoundTrip" ELSE ""
Clause(e) == IF e.kind = "value" THEN ValueClause(e) ELSE ResultClause(e)

TInit == c = [kind |-> "init"] /\ tid = 0 /\ mismatch = <<>>
Validate == /\ tid = 0
            /\ \E k \in 1..Len(Traces) :
                  /\ tid' = k
                  /\ mismatch' = (LET cl == Clause(Traces[k]) IN IF cl = "" THEN <<>> ELSE <<k, cl>>)
            /\ UNCHANGED c
TNext == Validate
Conforms == mismatch = <<>>
=============================================================================
