------------------------------ MODULE Serialize ------------------------------
(* C17 - saving and loading parameters and results loses nothing.

   Models pyphysim.util.serialize (NumpyOrSetEncoder / json_numpy_or_set_obj_hook),
   SimulationParameters._to_dict/_from_dict + get_unpacked_params_list,
   Result.update + _to_dict/_from_dict, SimulationResults._to_dict/_from_dict and
   save_to_file's file-name templating (misc.replace_dict_values).

   * A TYPED VALUE UNIVERSE: scalars [t, n, d, s] (t = Python/numpy type, n/d the exact rational
     value, s the text of a Str), List, Set, Array (dtype, shape, row-major data), nesting bounded
     by the pools below.
   * An ABSTRACT JSON TREE: number nodes keep the int-vs-float kind and the exact value, strings,
     null, booleans, lists, objects (ordered keys) and "bag" = the list a set is written as (its
     order is unspecified, the harness compares it as a multiset).  Arrays and sets become the marker
     objects the library documents ({"data","dtype","_is_numpy_array","shape"}, {"data","_is_set"}).
   * Enc / Dec are the encoder and the decoder as FUNCTIONS between the two (parametrised by a record
     D of deviation flags so that the as-is behaviour can be evaluated next to the intended one).
   * Objects: SimulationParameters = [params (ordered name/value pairs), unpacked (marks), index
     (unpack index), parent (<<>> or <<P>>)], children by the product order of get_unpacked_params_list;
     Result state = fold of `update` over a history (exact rational statistics, numpy result types);
     SimulationResults = [params, runned, current, orig, res].

   EQUALITY (what "equal" means, per type):
     LibEq   = what Python's == of the library sees: numbers by numeric VALUE (1 == 1.0 == np.int32(1)),
               Str by text, List/Set/Array only with the same container kind, lists element-wise,
               sets as sets, arrays same shape and same values (dtype ignored).
     Faithful = LibEq and additionally: int-kind stays int-kind and float-kind stays float-kind,
               arrays keep their dtype (numpy scalar WIDTH is not kept by JSON and is not demanded:
               np.int32(3) may come back as int 3).
   LAWS (invariants, evaluated by TLC on every enumerated object):
     EncodeTotal / DecodeTotal   neither direction raises on the supported universe
     RoundTripEq / RoundTripFaithful   Dec(Enc(x)) equals x (library equality / faithful equality)
     DoubleRoundTrip             Enc(Dec(Enc(x))) = Enc(x)   (tree equality)
     MarksPreserved              unpack marks, unpack index and parent survive
     ChildLaw                    child k of P has index k, parent P, no marks, the k-th combination
     StatsLaw                    num_updates = length of the history, CHOICE counts sum to total
     FileNameInjective / FileNameFunctional   names of distinct scalar values differ; the name depends
                                 on value and int/float kind only (not on the numpy width)
     FinePoolOk + req (rel)      groups of scalars that differ only far down (tiny magnitudes, adjacent floats,
                                 1e-13-scale differences, last digits of large values): members are pairwise
                                 different numbers (exact); required of the implementation: names deterministic
                                 and pairwise distinct, every variation saved through ONE template loads back
                                 as what was saved into it
   Numbers: besides rationals, +inf / -inf (d = 0) and -0.0 (n = 0, d = -1) occur in every float position.  NaN is
   EXCLUDED from the property: NaN != NaN, an object holding one is not even equal to itself.
   Strings are data: values, result names and templates contain format braces, '%', case variants.
   Frame conditions (ReqObject / ReqFiles, emitted as `req`): ArgumentsUnchanged, QueryIsPure,
   EarlierResultsUnchanged, LoadedIsIndependent, ReturnedNameIsTheFile, RejectedSaveChangesNothing.
   Histories: results are folds of update AND merge items (RMerge); SaveHistCase folds save / in-place parameter
   change / set_parameters / result update / reload sequences over ONE object and its directory
   (SaveNameIsCurrent, SavedFilesRoundTrip; Hyp.StaleNameCache and Hyp.ZeroUpdatesSkipsState are refuted).
   UnpHistCase folds unpacking recipes (grandchildren, parent changed after the child was taken) before the round trip
   (Hyp.IndexClampedToRootCount refuted).
   Every scalar FIELD also takes its falsy-but-valid values (current_rep 0, runned_reps 0 / [0,0] / [], value 0 /
   0.0 / "" / None / [] / empty set, result name "", original_filename None / "", unpack index 0).
   Pickle is the identity on this universe at model level; the harness checks it on the real files.

   Deviations of the code as found (fields of Dev, all FALSE = intended design):
     Float32EncodedAsInt      np.float32 (and longdouble) scalars are written with int()
     NarrowScalarRaises       int8/int16/uint*/float16 scalars make the encoder raise TypeError
     ArrayDtypeLost           the decoder ignores "dtype" (float32 -> float64, int32 -> int64)
     EmptyArrayShapeLost      the decoder ignores "shape" (shape (0,2) comes back as (0,))
     RatioZeroUpdatesRaises   Result._from_dict replays through update(): 0/0 for an un-updated RATIOTYPE
     ChoiceAccumOrderLost     ... and rebuilds CHOICETYPE by counts: order of accumulated values is lost
     CurrentRepNotSerialized  SimulationResults._to_dict omits current_rep
   Hyp flags are hypothetical regressions used only to show that the laws are not vacuous.      *)
EXTENDS Integers, Sequences, FiniteSets, TLC, Emit, Rat

CONSTANTS Dev,      \* [flag name |-> BOOLEAN]   deviations of the code
          Hyp,      \* [flag name |-> BOOLEAN]   hypothetical regressions (non-vacuity runs)
          Family,   \* "value" | "params" | "result" | "results" | "fields" | "savehist" | "fname"
          Tier,     \* "quick" | "thorough"
          Part, NParts    \* this TLC process handles the cases with index % NParts = Part

VARIABLE c
Thorough == Tier = "thorough"
Pick(i) == i % NParts = Part

DevNames == {"Float32EncodedAsInt", "NarrowScalarRaises", "ArrayDtypeLost", "EmptyArrayShapeLost",
             "RatioZeroUpdatesRaises", "ChoiceAccumOrderLost", "CurrentRepNotSerialized",
             "NpBoolRaises", "FileNameFailsForNonVectorArray"}
Dev0     == [f \in DevNames |-> FALSE]
Only(f)  == [g \in DevNames |-> g = f]

(* ------------------------------------ typed values -------------------------------------------- *)
IntTypes   == {"PyInt", "NpInt8", "NpInt16", "NpInt32", "NpInt64", "NpUInt8", "NpUInt16", "NpUInt32", "NpUInt64"}
\* NpLongDouble (np.longdouble / np.float128): JSON holds doubles, so only values a double represents exactly are inside
\* the property for it (all pool values are); it is written like every other float and comes back as a Python float
FloatTypes == {"PyFloat", "NpFloat16", "NpFloat32", "NpFloat64", "NpLongDouble"}
EncodedIntTypes   == {"PyInt", "NpInt32", "NpInt64"}         \* what the code as found handles
Num(t, n, d) == [t |-> t, n |-> n, d |-> d, s |-> ""]
Str(s)       == [t |-> "Str", n |-> 0, d |-> 1, s |-> s]
NoneV        == [t |-> "None", n |-> 0, d |-> 1, s |-> ""]
List(items)  == [t |-> "List", items |-> items]
SetV(elems)  == [t |-> "Set", elems |-> elems]
Arr(dt, sh, data) == [t |-> "Array", dtype |-> dt, shape |-> sh, data |-> data]
IsNum(v)     == v.t \in IntTypes \cup FloatTypes
\* flags: Python bool and numpy.bool_ (n = 1 True, n = 0 False); a bool stays a bool (JSON true / false)
BoolTypes    == {"PyBool", "NpBool"}
IsBool(v)    == v.t \in BoolTypes
\* Float values beyond the rationals: d = 0 is an INFINITY (n = 1: +inf, n = -1: -inf), n = 0 with d = -1 is -0.0.
\* NaN is excluded from the property (NaN != NaN: an object holding a NaN is not even equal to itself).
IsInf(a)    == a.d = 0
NegZero(a)  == a.n = 0 /\ a.d < 0
Kind(v)      == IF v.t \in IntTypes THEN "int" ELSE IF v.t \in FloatTypes THEN "float"
                ELSE IF v.t \in BoolTypes THEN "bool" ELSE v.t
IntDtypes    == {"int8", "int16", "int32", "int64", "uint8", "uint16", "uint32", "uint64"}
DtKind(dt)   == IF dt \in IntDtypes THEN "int" ELSE IF dt = "bool" THEN "bool" ELSE "float"
ScalarOfDtype(dt) == CASE dt = "int8" -> "NpInt8" [] dt = "int16" -> "NpInt16" [] dt = "int32" -> "NpInt32"
                       [] dt = "int64" -> "NpInt64" [] dt = "uint8" -> "NpUInt8" [] dt = "uint16" -> "NpUInt16"
                       [] dt = "uint32" -> "NpUInt32" [] dt = "uint64" -> "NpUInt64" [] dt = "float16" -> "NpFloat16"
                       [] dt = "float32" -> "NpFloat32" [] dt = "float64" -> "NpFloat64" [] dt = "bool" -> "NpBool"
                       [] dt = "float128" -> "NpLongDouble"

RECURSIVE Prod(_)
Prod(sh) == IF sh = <<>> THEN 1 ELSE Head(sh) * Prod(Tail(sh))
RECURSIVE Concat(_)
Concat(ss) == IF ss = <<>> THEN <<>> ELSE Head(ss) \o Concat(Tail(ss))
Trunc(n, d) == IF n >= 0 THEN n \div d ELSE -((-n) \div d)

(* ------------------------------------ abstract JSON ------------------------------------------- *)
JNum(k, n, d) == [j |-> k, n |-> n, d |-> d, s |-> ""]            \* k = "int" | "float"
JStr(s)       == [j |-> "str", n |-> 0, d |-> 1, s |-> s]
JNull         == [j |-> "null", n |-> 0, d |-> 1, s |-> ""]
JBool(b)      == [j |-> "bool", n |-> IF b THEN 1 ELSE 0, d |-> 1, s |-> ""]
JRaise(e)     == [j |-> "raise", n |-> 0, d |-> 1, s |-> e]
JList(items)  == [j |-> "list", items |-> items]
JBag(elems)   == [j |-> "bag", elems |-> elems]
JObj(keys, vals) == [j |-> "obj", keys |-> keys, vals |-> vals]
HasKey(t, k)  == \E i \in 1..Len(t.keys) : t.keys[i] = k
Get(t, k)     == t.vals[CHOOSE i \in 1..Len(t.keys) : t.keys[i] = k]
SetMarker(elems) == JObj(<<"data", "_is_set">>, <<JBag(elems), JBool(TRUE)>>)

RECURSIVE Raises(_)
Raises(t) == CASE t.j = "raise" -> TRUE
               [] t.j = "list" -> \E i \in 1..Len(t.items) : Raises(t.items[i])
               [] t.j = "bag"  -> \E e \in t.elems : Raises(e)
               [] t.j = "obj"  -> \E i \in 1..Len(t.vals) : Raises(t.vals[i])
               [] OTHER -> FALSE

(* ------------------------------------ encoder ------------------------------------------------- *)
RECURSIVE Nest(_, _, _)
Nest(data, sh, kind) ==            \* ndarray.tolist() for a non-empty shape tuple
  IF Len(sh) = 1
  THEN JList([i \in 1..sh[1] |-> IF kind = "bool" THEN JBool(data[i][1] = 1) ELSE JNum(kind, data[i][1], data[i][2])])
  ELSE LET rest == Tail(sh)   sz == Prod(rest)
       IN  JList([i \in 1..sh[1] |-> Nest(SubSeq(data, (i - 1) * sz + 1, i * sz), rest, kind)])

EncScalar(v, D) ==
  CASE v.t = "Str"  -> JStr(v.s)
    [] v.t = "None" -> JNull
    [] v.t = "PyBool" -> JBool(v.n = 1)
    [] v.t = "NpBool" -> IF D.NpBoolRaises THEN JRaise("TypeError") ELSE JBool(v.n = 1)
    [] v.t \in IntTypes ->
         IF D.NarrowScalarRaises /\ v.t \notin EncodedIntTypes THEN JRaise("TypeError") ELSE JNum("int", v.n, 1)
    [] v.t \in {"PyFloat", "NpFloat64", "NpLongDouble"} -> JNum("float", v.n, v.d)     \* np.float64 is a Python float
    [] v.t = "NpFloat16" ->
         IF D.NarrowScalarRaises THEN JRaise("TypeError") ELSE JNum("float", v.n, v.d)
    [] v.t = "NpFloat32" ->
         IF D.Float32EncodedAsInt
         THEN (IF IsInf(v) THEN JRaise("OverflowError") ELSE JNum("int", IF v.n = 0 THEN 0 ELSE Trunc(v.n, v.d), 1))
         ELSE JNum("float", v.n, v.d)

RECURSIVE Enc(_, _)
Enc(v, D) ==
  CASE v.t = "List"  -> JList([i \in 1..Len(v.items) |-> Enc(v.items[i], D)])
    [] v.t = "Set"   -> SetMarker({EncScalar(e, D) : e \in v.elems})
    [] v.t = "Array" -> JObj(<<"data", "dtype", "_is_numpy_array", "shape">>,
                             <<Nest(v.data, v.shape, DtKind(v.dtype)), JStr(v.dtype), JBool(TRUE),
                               JList([i \in 1..Len(v.shape) |-> JNum("int", v.shape[i], 1)])>>)
    [] OTHER -> EncScalar(v, D)

(* ------------------------------------ decoder ------------------------------------------------- *)
RECURSIVE Leaves(_)
Leaves(t) == IF t.j # "list" THEN <<t>> ELSE Concat([i \in 1..Len(t.items) |-> Leaves(t.items[i])])
RECURSIVE InferShape(_)
InferShape(t) == IF t.j # "list" THEN <<>>
                 ELSE IF t.items = <<>> THEN <<0>> ELSE <<Len(t.items)>> \o InferShape(t.items[1])

DecArray(t, D) ==
  LET lv     == Leaves(Get(t, "data"))
      infDt  == IF lv # <<>> /\ \A i \in 1..Len(lv) : lv[i].j = "int" THEN "int64"
                ELSE IF lv # <<>> /\ \A i \in 1..Len(lv) : lv[i].j = "bool" THEN "bool" ELSE "float64"
      shp    == Get(t, "shape").items
  IN  Arr(IF D.ArrayDtypeLost THEN infDt ELSE Get(t, "dtype").s,
          IF D.EmptyArrayShapeLost THEN InferShape(Get(t, "data")) ELSE [i \in 1..Len(shp) |-> shp[i].n],
          [i \in 1..Len(lv) |-> <<lv[i].n, lv[i].d>>])

DecScalar(t) == CASE t.j = "int" -> Num("PyInt", t.n, 1)
                  [] t.j = "float" -> Num("PyFloat", t.n, t.d)
                  [] t.j = "str" -> Str(t.s)
                  [] t.j = "null" -> NoneV
                  [] t.j = "bool" -> Num("PyBool", t.n, 1)

SeqOfSet(S) == LET RECURSIVE H(_)
                   H(T) == IF T = {} THEN <<>> ELSE LET x == CHOOSE y \in T : TRUE IN <<x>> \o H(T \ {x})
               IN  H(S)

RECURSIVE Dec(_, _)
Dec(t, D) ==
  CASE t.j = "list" -> List([i \in 1..Len(t.items) |-> Dec(t.items[i], D)])
    [] t.j = "obj"  -> IF HasKey(t, "_is_set")
                       THEN LET es == {DecScalar(e) : e \in Get(t, "data").elems}
                            IN  IF Hyp.SetAsList THEN List(SeqOfSet(es)) ELSE SetV(es)
                       ELSE DecArray(t, D)
    [] OTHER -> DecScalar(t)

(* ------------------------------------ equalities ---------------------------------------------- *)
NumEq(a, b) == IF IsInf(a) \/ IsInf(b) THEN a.d = b.d /\ a.n = b.n ELSE a.n * b.d = b.n * a.d
RECURSIVE LibEq(_, _)
LibEq(a, b) ==
  IF IsNum(a) /\ IsNum(b) THEN NumEq(a, b)
  ELSE IF IsBool(a) /\ IsBool(b) THEN a.n = b.n
  ELSE IF a.t # b.t THEN FALSE
  ELSE CASE a.t = "Str"   -> a.s = b.s
         [] a.t = "None"  -> TRUE
         [] a.t = "List"  -> /\ Len(a.items) = Len(b.items)
                             /\ \A i \in 1..Len(a.items) : LibEq(a.items[i], b.items[i])
         [] a.t = "Set"   -> /\ \A x \in a.elems : \E y \in b.elems : LibEq(x, y)
                             /\ \A y \in b.elems : \E x \in a.elems : LibEq(x, y)
         [] a.t = "Array" -> a.shape = b.shape /\ a.data = b.data
         [] OTHER -> FALSE
RECURSIVE Faithful(_, _)
Faithful(a, b) ==
  IF IsNum(a) /\ IsNum(b) THEN NumEq(a, b) /\ Kind(a) = Kind(b) /\ NegZero(a) = NegZero(b)
  ELSE IF IsBool(a) /\ IsBool(b) THEN a.n = b.n
  ELSE IF a.t # b.t THEN FALSE
  ELSE CASE a.t = "Str"   -> a.s = b.s
         [] a.t = "None"  -> TRUE
         [] a.t = "List"  -> /\ Len(a.items) = Len(b.items)
                             /\ \A i \in 1..Len(a.items) : Faithful(a.items[i], b.items[i])
         [] a.t = "Set"   -> /\ \A x \in a.elems : \E y \in b.elems : Faithful(x, y)
                             /\ \A y \in b.elems : \E x \in a.elems : Faithful(x, y)
         [] a.t = "Array" -> a.shape = b.shape /\ a.data = b.data /\ a.dtype = b.dtype
         [] OTHER -> FALSE

(* ------------------------------------ SimulationParameters ------------------------------------ *)
\* parameter names used by the cases, in ALPHABETICAL order (the library sorts the unpacked names)
NameOrder == <<"a2", "arr", "flag", "flt", "lst", "non", "num", "rep_max", "set", "str">>
MkP(params, unpacked, index, parent) == [params |-> params, unpacked |-> unpacked, index |-> index, parent |-> parent]
PV(name, val) == [name |-> name, val |-> val]
Names(P)   == {P.params[i].name : i \in 1..Len(P.params)}
Val(P, nm) == P.params[CHOOSE i \in 1..Len(P.params) : P.params[i].name = nm].val

RECURSIVE EncP(_, _)
EncP(P, D) ==
  JObj(<<"parameters", "unpacked_parameters_set", "unpack_index", "original_sim_params">>,
       <<JObj([i \in 1..Len(P.params) |-> P.params[i].name], [i \in 1..Len(P.params) |-> Enc(P.params[i].val, D)]),
         SetMarker({JStr(nm) : nm \in P.unpacked}),
         JNum("int", P.index, 1),
         IF Len(P.parent) = 0 THEN JNull ELSE EncP(P.parent[1], D)>>)

RECURSIVE DecP(_, _)
DecP(t, D) ==
  LET ps == Get(t, "parameters")   par == Get(t, "original_sim_params")
  IN  MkP([i \in 1..Len(ps.keys) |-> PV(ps.keys[i], Dec(ps.vals[i], D))],
          IF Hyp.MarksDropped THEN {} ELSE {e.s : e \in Get(Get(t, "unpacked_parameters_set"), "data").elems},
          IF Hyp.IndexDropped THEN -1 ELSE Get(t, "unpack_index").n,
          IF Hyp.ParentDropped \/ par.j = "null" THEN <<>> ELSE <<DecP(par, D)>>)

\* SimulationParameters.__eq__ : marks, names, index, values (the value of 'rep_max' is ignored)
PEq(P, Q) == /\ P.unpacked = Q.unpacked /\ Names(P) = Names(Q) /\ P.index = Q.index
             /\ \A nm \in Names(P) \ {"rep_max"} : LibEq(Val(P, nm), Val(Q, nm))
RECURSIVE PFaithful(_, _)
PFaithful(P, Q) == /\ P.unpacked = Q.unpacked /\ P.index = Q.index
                   /\ [i \in 1..Len(P.params) |-> P.params[i].name] = [i \in 1..Len(Q.params) |-> Q.params[i].name]
                   /\ \A nm \in Names(P) : Faithful(Val(P, nm), Val(Q, nm))
                   /\ Len(P.parent) = Len(Q.parent)
                   /\ Len(P.parent) = 1 => PFaithful(P.parent[1], Q.parent[1])

\* Python's == of two lists needs a truth value for every element comparison; `array == array` has one only
\* for arrays of exactly one element.  For such objects the library's == raises (even against a copy), so the
\* harness compares them field by field only; the model's LibEq is defined everywhere.
RECURSIVE HasNonUnitArray(_)
HasNonUnitArray(v) == IF v.t = "Array" THEN Prod(v.shape) # 1
                      ELSE IF v.t = "List" THEN \E i \in 1..Len(v.items) : HasNonUnitArray(v.items[i]) ELSE FALSE
EqDefinedV(v) == IF v.t = "List" THEN ~HasNonUnitArray(v) ELSE TRUE
EqDefinedP(P) == \A i \in 1..Len(P.params) : P.params[i].name = "rep_max" \/ EqDefinedV(P.params[i].val)

\* iteration of a parameter value (what unpacking produces)
StrChars == ("c{num}" :> <<"c", "{", "n", "u", "m", "}">>) @@ ("ab" :> <<"a", "b">>) @@ ("qpsk" :> <<"q", "p", "s", "k">>) @@ ("x" :> <<"x">>) @@ ("" :> <<>>)
Iter(v) ==
  CASE v.t = "List" -> v.items
    [] v.t = "Str"  -> [i \in 1..Len(StrChars[v.s]) |-> Str(StrChars[v.s][i])]
    [] v.t = "Array" ->
         IF Len(v.shape) = 1
         THEN [i \in 1..v.shape[1] |-> Num(ScalarOfDtype(v.dtype), v.data[i][1], v.data[i][2])]
         ELSE LET rest == Tail(v.shape)  sz == Prod(rest)
              IN  [i \in 1..v.shape[1] |-> Arr(v.dtype, rest, SubSeq(v.data, (i - 1) * sz + 1, i * sz))]
UnpSeq(P)    == SelectSeq(NameOrder, LAMBDA nm : nm \in P.unpacked)
CanChild(P)  == \A nm \in P.unpacked : Val(P, nm).t \in {"List", "Str", "Array"}
RECURSIVE ProdLens(_, _)
ProdLens(P, nms) == IF nms = <<>> THEN 1 ELSE Len(Iter(Val(P, Head(nms)))) * ProdLens(P, Tail(nms))
NumVar(P)    == ProdLens(P, UnpSeq(P))
\* child k (0-based): itertools.product over the sorted unpacked names, last name varying fastest
Child(P, k) ==
  LET u   == UnpSeq(P)
      ix(i) == (k \div ProdLens(P, SubSeq(u, i + 1, Len(u)))) % Len(Iter(Val(P, u[i])))
      reg == SelectSeq(P.params, LAMBDA q : q.name \notin P.unpacked)
  IN  MkP([i \in 1..Len(u) |-> PV(u[i], Iter(Val(P, u[i]))[ix(i) + 1])] \o reg, {}, k, <<P>>)

(* ------------------------------------ Result --------------------------------------------------- *)
IsPy(t) == t \in {"PyInt", "PyFloat"}
WeakJoin(py, np) == IF py = "PyInt" THEN np ELSE IF np \in FloatTypes THEN np ELSE "NpFloat64"
NpJoin(a, b) == IF a = b THEN a
                ELSE IF "NpLongDouble" \in {a, b} THEN "NpLongDouble"
                ELSE IF "NpFloat64" \in {a, b} THEN "NpFloat64"
                ELSE IF {a, b} = {"NpInt32", "NpInt64"} THEN "NpInt64"
                ELSE "NpFloat64"          \* float32 with int32/int64 (only the four wide types are mixed)
JoinT(a, b) == IF IsPy(a) /\ IsPy(b) THEN (IF a = "PyInt" /\ b = "PyInt" THEN "PyInt" ELSE "PyFloat")
               ELSE IF IsPy(a) THEN WeakJoin(a, b) ELSE IF IsPy(b) THEN WeakJoin(b, a) ELSE NpJoin(a, b)
DivT(a, b)  == LET jt == JoinT(a, b) IN IF jt = "PyInt" THEN "PyFloat" ELSE IF jt \in IntTypes THEN "NpFloat64" ELSE jt
\* inf + x = inf, inf^2 = +inf, inf / positive = inf (histories never mix +inf with -inf: that would be NaN)
NAdd(a, b)  == IF IsInf(a) THEN Num(JoinT(a.t, b.t), a.n, 0) ELSE IF IsInf(b) THEN Num(JoinT(a.t, b.t), b.n, 0)
               ELSE LET q == RAdd(<<a.n, a.d>>, <<b.n, b.d>>) IN Num(JoinT(a.t, b.t), q[1], q[2])
NDiv(a, b)  == IF IsInf(a) THEN Num(DivT(a.t, b.t), a.n, 0)
               ELSE LET q == RDiv(<<a.n, a.d>>, <<b.n, b.d>>) IN Num(DivT(a.t, b.t), q[1], q[2])
NSq(a)      == IF IsInf(a) THEN Num(a.t, 1, 0)
               ELSE LET q == RMul(<<a.n, a.d>>, <<a.n, a.d>>) IN Num(a.t, q[1], q[2])

SUMT == 0  RATIOT == 1  MISCT == 2  CHOICET == 3
\* Rd = [name, type, acc, nch, hist]; hist[i] = [v, tot]
RInit(Rd) == [name |-> Rd.name, type |-> Rd.type, acc |-> Rd.acc,
             value |-> IF Rd.type = CHOICET THEN Arr("int64", <<Rd.nch>>, [i \in 1..Rd.nch |-> <<0, 1>>]) ELSE Num("PyInt", 0, 1),
             total |-> Num("PyInt", 0, 1), rsum |-> Num("PyFloat", 0, 1), rsq |-> Num("PyFloat", 0, 1),
             num |-> 0, vlist |-> <<>>, tlist |-> <<>>]
RUpd(st, u) ==
  LET accv == IF st.acc THEN Append(st.vlist, u.v) ELSE st.vlist
  IN  CASE st.type = SUMT ->
             [st EXCEPT !.value = NAdd(@, u.v), !.rsum = NAdd(@, u.v), !.rsq = NAdd(@, NSq(u.v)),
                        !.vlist = accv, !.num = @ + 1]
        [] st.type = RATIOT ->
             LET r == NDiv(u.v, u.tot)
             IN  [st EXCEPT !.value = NAdd(@, u.v), !.total = NAdd(@, u.tot), !.rsum = NAdd(@, r),
                            !.rsq = NAdd(@, NSq(r)), !.vlist = accv,
                            !.tlist = IF st.acc THEN Append(@, u.tot) ELSE @, !.num = @ + 1]
        [] st.type = MISCT ->
             [st EXCEPT !.value = u.v, !.vlist = accv, !.num = @ + 1]
        [] st.type = CHOICET ->
             [st EXCEPT !.value = [@ EXCEPT !.data = [@ EXCEPT ![u.v.n + 1] = <<@[1] + 1, 1>>]],
                        !.total = NAdd(@, Num("PyInt", 1, 1)), !.vlist = accv, !.num = @ + 1]
\* Result.merge(other): accumulated lists are extended; MISCTYPE takes the other's counters and value - unless the other
\* was never updated: it has no observation that could win (as repaired in /repo: before, such a merge left num = 0 next
\* to a value and a non-empty value list) -, every other type adds them
AddArr(a, b) == [a EXCEPT !.data = [i \in 1..Len(a.data) |-> <<a.data[i][1] + b.data[i][1], 1>>]]
RMerge(st, o) ==
  LET st1 == IF st.acc THEN [st EXCEPT !.vlist = @ \o o.vlist, !.tlist = @ \o o.tlist] ELSE st
  IN  IF st.type = MISCT
      THEN IF o.num = 0 THEN st1
           ELSE [st1 EXCEPT !.num = o.num, !.value = o.value, !.total = o.total, !.rsum = o.rsum, !.rsq = o.rsq]
      ELSE [st1 EXCEPT !.num = @ + o.num, !.value = IF st.type = CHOICET THEN AddArr(@, o.value) ELSE NAdd(@, o.value),
                       !.total = NAdd(@, o.total), !.rsum = NAdd(@, o.rsum), !.rsq = NAdd(@, o.rsq)]
\* a history item is an update [op "upd", v, tot] or the merge of another result given by ITS history [op "merge", rd <<R>>]
RECURSIVE RFold(_, _)
RFold(Rd, k) == IF k = 0 THEN RInit(Rd)
                ELSE IF Rd.hist[k].op = "merge"
                     THEN RMerge(RFold(Rd, k - 1), RFold(Rd.hist[k].rd[1], Len(Rd.hist[k].rd[1].hist)))
                     ELSE RUpd(RFold(Rd, k - 1), Rd.hist[k])
RState(Rd)  == RFold(Rd, Len(Rd.hist))

RKeys == <<"name", "update_type_code", "value", "total", "result_sum", "result_squared_sum", "num_updates",
           "accumulate_values_bool", "value_list", "total_list">>
EncR(st, D) == JObj(RKeys, <<JStr(st.name), JNum("int", st.type, 1), Enc(st.value, D), Enc(st.total, D),
                             Enc(st.rsum, D), Enc(st.rsq, D), JNum("int", st.num, 1), JBool(st.acc),
                             Enc(List(st.vlist), D), Enc(List(st.tlist), D)>>)
RECURSIVE Repeat(_, _)
Repeat(x, n) == IF n = 0 THEN <<>> ELSE <<x>> \o Repeat(x, n - 1)
DecRRaises(t, D) == /\ D.RatioZeroUpdatesRaises /\ Get(t, "update_type_code").n = RATIOT /\ Get(t, "total").n = 0
DecR(t, D) ==
  IF Hyp.ZeroUpdatesSkipsState /\ Get(t, "num_updates").n = 0
  THEN RInit([name |-> Get(t, "name").s, type |-> Get(t, "update_type_code").n,
              acc |-> Get(t, "accumulate_values_bool").n = 1,
              nch |-> IF Get(t, "update_type_code").n = CHOICET THEN Len(Dec(Get(t, "value"), D).data) ELSE 0])
  ELSE
  LET ty  == Get(t, "update_type_code").n
      acc == Get(t, "accumulate_values_bool").n = 1
      val == Dec(Get(t, "value"), D)
      replay == ty = CHOICET /\ D.ChoiceAccumOrderLost     \* rebuilt by update(i), counts[i] times
  IN  [name |-> Get(t, "name").s, type |-> ty, acc |-> acc, value |-> val,
       total |-> Dec(Get(t, "total"), D), rsum |-> Dec(Get(t, "result_sum"), D),
       rsq |-> Dec(Get(t, "result_squared_sum"), D),
       num |-> IF Hyp.NumUpdatesDropped THEN 0 ELSE Get(t, "num_updates").n,
       vlist |-> IF replay
                 THEN (IF acc THEN Concat([i \in 1..Len(val.data) |-> Repeat(Num("PyInt", i - 1, 1), val.data[i][1])]) ELSE <<>>)
                 ELSE Dec(Get(t, "value_list"), D).items,
       tlist |-> IF replay THEN <<>> ELSE Dec(Get(t, "total_list"), D).items]
\* Result.__eq__ : everything except num_updates
ResEq(a, b) == /\ a.name = b.name /\ a.type = b.type /\ a.acc = b.acc
             /\ LibEq(a.value, b.value) /\ LibEq(a.total, b.total) /\ LibEq(a.rsum, b.rsum) /\ LibEq(a.rsq, b.rsq)
             /\ LibEq(List(a.vlist), List(b.vlist)) /\ LibEq(List(a.tlist), List(b.tlist))
ResFaithful(a, b) == /\ a.name = b.name /\ a.type = b.type /\ a.acc = b.acc /\ a.num = b.num
             /\ Faithful(a.value, b.value) /\ Faithful(a.total, b.total) /\ Faithful(a.rsum, b.rsum) /\ Faithful(a.rsq, b.rsq)
             /\ Faithful(List(a.vlist), List(b.vlist)) /\ Faithful(List(a.tlist), List(b.tlist))

(* ------------------------------------ SimulationResults ---------------------------------------- *)
\* S = [params, runned, current, orig, res]; res[i] = [name, rs (sequence of result states)]
EncS(S, D) ==
  LET resObj == JObj([i \in 1..Len(S.res) |-> S.res[i].name],
                     [i \in 1..Len(S.res) |-> JList([k \in 1..Len(S.res[i].rs) |-> EncR(S.res[i].rs[k], D)])])
  IN  IF D.CurrentRepNotSerialized
      THEN JObj(<<"params", "runned_reps", "original_filename", "results">>,
                <<EncP(S.params, D), Enc(S.runned, D), Enc(S.orig, D), resObj>>)
      ELSE JObj(<<"params", "runned_reps", "original_filename", "current_rep", "results">>,
                <<EncP(S.params, D), Enc(S.runned, D), Enc(S.orig, D), JNum("int", S.current, 1), resObj>>)
DecSRaises(t, D) == LET ro == Get(t, "results")
                    IN  \E i \in 1..Len(ro.vals) : \E k \in 1..Len(ro.vals[i].items) : DecRRaises(ro.vals[i].items[k], D)
DecS(t, D) ==
  LET ro == Get(t, "results")
  IN  [params |-> DecP(Get(t, "params"), D), runned |-> Dec(Get(t, "runned_reps"), D),
       current |-> IF HasKey(t, "current_rep") THEN Get(t, "current_rep").n ELSE -1,
       orig |-> Dec(Get(t, "original_filename"), D),
       res |-> [i \in 1..Len(ro.keys) |-> [name |-> ro.keys[i],
                                            rs |-> [k \in 1..Len(ro.vals[i].items) |-> DecR(ro.vals[i].items[k], D)]]]]
ResNames(S)  == {S.res[i].name : i \in 1..Len(S.res)}
ResOf(S, nm) == S.res[CHOOSE i \in 1..Len(S.res) : S.res[i].name = nm].rs
\* SimulationResults.__eq__ : params, runned_reps, current_rep, result names, all results but 'elapsed_time'
SEq(A, B) == /\ PEq(A.params, B.params) /\ LibEq(A.runned, B.runned) /\ A.current = B.current
             /\ ResNames(A) = ResNames(B)
             /\ \A nm \in ResNames(A) \ {"elapsed_time"} :
                   /\ Len(ResOf(A, nm)) = Len(ResOf(B, nm))
                   /\ \A k \in 1..Len(ResOf(A, nm)) : ResEq(ResOf(A, nm)[k], ResOf(B, nm)[k])
SFaithful(A, B) == /\ PFaithful(A.params, B.params) /\ Faithful(A.runned, B.runned) /\ A.current = B.current
             /\ Faithful(A.orig, B.orig)
             /\ [i \in 1..Len(A.res) |-> A.res[i].name] = [i \in 1..Len(B.res) |-> B.res[i].name]
             /\ \A i \in 1..Len(A.res) :
                   /\ Len(A.res[i].rs) = Len(B.res[i].rs)
                   /\ \A k \in 1..Len(A.res[i].rs) : ResFaithful(A.res[i].rs[k], B.res[i].rs[k])

(* ------------------------------------ file names ----------------------------------------------- *)
\* template = sequence of tokens [lit |-> text] | [par |-> name]; an extension-less template gets ".pickle"
Lit(s) == [k |-> "lit", s |-> s, raw |-> s]
LitE(s, raw) == [k |-> "lit", s |-> s, raw |-> raw]       \* literal text s written as raw in the template ("{{" for "{")
Par(s) == [k |-> "par", s |-> s, raw |-> s]
Pad2(x) == IF x < 10 THEN "0" \o ToString(x) ELSE ToString(x)
Pad3(x) == IF x < 10 THEN "00" \o ToString(x) ELSE IF x < 100 THEN "0" \o ToString(x) ELSE ToString(x)
FracDigits(m) == IF m = 0 THEN "0" ELSE IF m % 100 = 0 THEN ToString(m \div 100)
                 ELSE IF m % 10 = 0 THEN Pad2(m \div 10) ELSE Pad3(m)
\* str() of a float whose denominator divides 1000 (all pools satisfy this)
RenderFloat(n, d) == LET a == Abs(n) IN (IF n < 0 THEN "-" ELSE "") \o ToString(a \div d) \o "."
                                        \o FracDigits(((a % d) * 1000) \div d)
RenderNum(kind, n, d) == IF kind = "int" THEN ToString(n)
                         ELSE IF d = 0 THEN (IF n < 0 THEN "-inf" ELSE "inf")
                         ELSE IF n = 0 /\ d < 0 THEN "-0.0" ELSE RenderFloat(n, d)
RECURSIVE JoinComma(_)
JoinComma(ss) == IF Len(ss) = 0 THEN "" ELSE IF Len(ss) = 1 THEN ss[1] ELSE ss[1] \o "," \o JoinComma(Tail(ss))
IsAP(data) == \A i \in 2..Len(data) - 1 : RSub(data[i + 1], data[i]) = RSub(data[2], data[1])
\* misc.get_mixed_range_representation(filename_mode = True) for the arrays the templates refer to:
\* fewer than 4 elements -> comma list; an arithmetic progression of >= 4 elements -> first_(step)_last
RenderArray(v) ==
  LET kd == DtKind(v.dtype)
      el(i) == RenderNum(kd, v.data[i][1], v.data[i][2])
      st == RSub(v.data[2], v.data[1])
  IN  "[" \o (IF Len(v.data) < 4 THEN JoinComma([i \in 1..Len(v.data) |-> el(i)])
              ELSE el(1) \o "_(" \o RenderNum(kd, st[1], st[2]) \o ")_" \o el(Len(v.data))) \o "]"
Renderable(v) == IF v.t = "Str" THEN TRUE ELSE IF IsNum(v) \/ IsBool(v) THEN TRUE
                 ELSE IF v.t = "Array" /\ Len(v.shape) = 1 /\ Len(v.data) >= 1 /\ \A i \in 1..Len(v.data) : v.data[i][2] > 0
                      THEN (IF Len(v.data) < 4 THEN TRUE ELSE IsAP(v.data))
                      ELSE FALSE
\* values whose text the specification does not spell out (str() of a list / set / None, the mixed-range text of a
\* vector that is no progression): a template naming one gets a (rel) name - deterministic, the file that exists,
\* loads back - instead of an exact string
RelRenderable(v) == IF v.t \in {"List", "Set", "None"} THEN TRUE
                    ELSE v.t = "Array" /\ Len(v.shape) = 1 /\ Len(v.data) >= 1 /\ \A i \in 1..Len(v.data) : v.data[i][2] > 0
Render(v) == IF v.t = "Str" THEN v.s
             ELSE IF IsBool(v) THEN (IF v.n = 1 THEN "True" ELSE "False")
             ELSE IF v.t = "Array" THEN RenderArray(v)
             ELSE IF Hyp.FileNameRounds /\ v.d > 0 THEN RenderNum("int", Trunc(v.n, v.d), 1)
             ELSE RenderNum(Kind(v), v.n, v.d)
RECURSIVE TemplateText(_)
TemplateText(tk) == IF tk = <<>> THEN ""
                    ELSE (IF Head(tk).k = "lit" THEN Head(tk).raw ELSE "{" \o Head(tk).s \o "}") \o TemplateText(Tail(tk))
RECURSIVE FileNameFilled(_, _)
FileNameFilled(tk, P) == IF tk = <<>> THEN ""
                   ELSE (IF Head(tk).k = "lit" THEN Head(tk).s ELSE Render(Val(P, Head(tk).s))) \o FileNameFilled(Tail(tk), P)
\* a template naming a parameter that does not exist is used AS IT IS (the results must not be lost)
NamesAbsent(tk, P) == \E i \in 1..Len(tk) : tk[i].k = "par" /\ tk[i].s \notin Names(P)
FileName(tk, P) == IF NamesAbsent(tk, P) THEN TemplateText(tk) ELSE FileNameFilled(tk, P)
TemplateOk(tk, P) == IF NamesAbsent(tk, P) THEN TRUE
                     ELSE \A i \in 1..Len(tk) : tk[i].k = "par" =>
                             (IF Renderable(Val(P, tk[i].s)) THEN TRUE ELSE RelRenderable(Val(P, tk[i].s)))
RelName(tk, P)    == ~NamesAbsent(tk, P) /\ \E i \in 1..Len(tk) : tk[i].k = "par" /\ ~Renderable(Val(P, tk[i].s))
\* every array among the parameters is formatted when a name is built, named by the template or not: the name must
\* exist whatever their shape (the code as found raises for arrays that are not non-empty vectors)
HasNonVector(P) == \E i \in 1..Len(P.params) : P.params[i].val.t = "Array" /\
                      (Len(P.params[i].val.shape) # 1 \/ Prod(P.params[i].val.shape) = 0)
WithExt(tk, ext) == IF ext = "" THEN tk \o <<Lit(".pickle")>> ELSE tk \o <<Lit(ext)>>

(* ==================================== case pools ================================================ *)
\* scalars: every type, zero, negative, non-integral, integral-valued floats, a decimal (1/10)
ScalarPool ==
  <<Num("PyInt", 0, 1), Num("PyInt", -3, 1), Num("PyInt", 7, 1), Num("PyInt", 100000, 1),
    Num("PyFloat", 0, 1), Num("PyFloat", 3, 2), Num("PyFloat", -1, 4), Num("PyFloat", 2, 1), Num("PyFloat", 1, 10),
    Num("PyFloat", 15, 8),
    Num("NpInt8", -3, 1), Num("NpInt8", 7, 1), Num("NpInt16", 0, 1), Num("NpInt16", -300, 1),
    Num("NpInt32", -3, 1), Num("NpInt32", 7, 1), Num("NpInt32", 0, 1),
    Num("NpInt64", -3, 1), Num("NpInt64", 7, 1), Num("NpInt64", 100000, 1),
    Num("NpUInt8", 200, 1), Num("NpUInt8", 7, 1), Num("NpUInt16", 7, 1), Num("NpUInt32", 0, 1), Num("NpUInt64", 7, 1),
    Num("NpFloat16", 3, 2), Num("NpFloat16", -1, 4), Num("NpFloat16", 2, 1),
    Num("NpFloat32", 0, 1), Num("NpFloat32", 3, 2), Num("NpFloat32", -1, 4), Num("NpFloat32", 2, 1), Num("NpFloat32", -7, 2),
    Num("NpFloat32", 15, 8),
    Num("NpLongDouble", 0, 1), Num("NpLongDouble", 3, 2), Num("NpLongDouble", -1, 4), Num("NpLongDouble", 1, 0), Num("NpLongDouble", 0, -1),
    Num("NpFloat64", 0, 1), Num("NpFloat64", 3, 2), Num("NpFloat64", -1, 4), Num("NpFloat64", 2, 1), Num("NpFloat64", 1, 10),
    Str(""), Str("ab"), Str("qpsk"),
    \* infinities and the negative zero in every float width
    Num("PyFloat", 1, 0), Num("PyFloat", -1, 0), Num("NpFloat64", -1, 0), Num("NpFloat32", 1, 0), Num("NpFloat16", -1, 0),
    Num("PyFloat", 0, -1), Num("NpFloat32", 0, -1),
    \* strings that look like format fields: the value of a parameter is DATA, never a template
    Str("c{num}"), Str("set{{A}}"), Str("{0}"), Str("a b%s"), Str("}{"),
    \* flags
    Num("PyBool", 1, 1), Num("PyBool", 0, 1), Num("NpBool", 1, 1), Num("NpBool", 0, 1)>>

\* list elements (mixed types; 1.5 appears as Python, float32 and float64 value)
E1q == <<Num("PyInt", 1, 1), Num("PyFloat", 3, 2), Num("NpInt32", -3, 1), Num("NpInt64", 7, 1),
         Num("NpFloat32", 3, 2), Num("NpFloat64", -1, 4), Str("x"), Num("PyFloat", 2, 1), Num("NpFloat32", -1, 0),
         Str("{x}"), Num("NpBool", 0, 1), Num("NpLongDouble", 5, 2), Str("a@u{dcff}@b @u{e9}@ @u{1f600}@")>>
E1t == E1q \o <<Num("NpInt8", 7, 1), Num("NpUInt16", 7, 1), Num("NpFloat16", 3, 2), Num("NpFloat32", 2, 1),
                Num("PyFloat", 1, 10), Str("")>>
E1  == IF Thorough THEN E1t ELSE E1q
\* set elements: pairwise different numeric values (a Python set identifies 1 and 1.0)
S1q == <<Num("PyInt", 1, 1), Num("PyFloat", 3, 2), Num("NpInt64", 7, 1), Num("NpFloat32", -1, 4), Str("a"),
         Num("NpFloat64", 2, 1), Num("NpInt16", -3, 1), Str("b"), Num("PyFloat", 1, 0)>>
S1t == S1q \o <<Num("NpFloat16", 5, 2), Num("NpUInt8", 200, 1), Num("NpFloat32", 7, 2), Num("PyFloat", 1, 10)>>
S1  == IF Thorough THEN S1t ELSE S1q

Lists(pool, maxlen) ==
  LET n == Len(pool)
  IN  <<List(<<>>)>> \o [i \in 1..n |-> List(<<pool[i]>>)]
      \o [k \in 1..n * n |-> List(<<pool[((k - 1) \div n) + 1], pool[((k - 1) % n) + 1]>>)]
      \o (IF maxlen < 3 THEN <<>>
          ELSE [k \in 1..n * n * n |-> List(<<pool[((k - 1) \div (n * n)) + 1], pool[(((k - 1) \div n) % n) + 1],
                                              pool[((k - 1) % n) + 1]>>)])
Sets(pool, maxsize) ==
  LET n == Len(pool)
      pairs == SelectSeq([k \in 1..n * n |-> <<((k - 1) \div n) + 1, ((k - 1) % n) + 1>>], LAMBDA p : p[1] < p[2])
      trip  == SelectSeq([k \in 1..n * n * n |-> <<((k - 1) \div (n * n)) + 1, (((k - 1) \div n) % n) + 1, ((k - 1) % n) + 1>>],
                         LAMBDA p : p[1] < p[2] /\ p[2] < p[3])
  IN  <<SetV({})>> \o [i \in 1..n |-> SetV({pool[i]})]
      \o [k \in 1..Len(pairs) |-> SetV({pool[pairs[k][1]], pool[pairs[k][2]]})]
      \o (IF maxsize < 3 THEN <<>> ELSE [k \in 1..Len(trip) |-> SetV({pool[trip[k][1]], pool[trip[k][2]], pool[trip[k][3]]})])

\* array contents: not an arithmetic progression, not symmetric, non-integral for floats
DataInt(len)      == [i \in 1..len |-> <<(i * 5) % 7, 1>>]            \* 5 3 1 6 4 2 0 ...   (fits every integer dtype)
DataIntNeg(len)   == [i \in 1..len |-> <<((i * 5) % 7) - 3, 1>>]      \* signed dtypes only
DataFloat(len)    == [i \in 1..len |-> RNorm(2 * ((i * 5) % 7) - 5, 4)] \* 5/4 1/4 -3/4 7/4 ...
DataFloatInf(len) == [i \in 1..len |-> IF i % 4 = 1 THEN <<1, 0>> ELSE IF i % 4 = 2 THEN <<0, -1>>       \* inf -0.0 -inf 3/4
                                         ELSE IF i % 4 = 3 THEN <<-1, 0>> ELSE <<3, 4>>]
DataFloatInt(len) == [i \in 1..len |-> <<i - 2, 1>>]                  \* -1.0 0.0 1.0 : integral floats must stay floats
ShapesQ == <<<<0>>, <<1>>, <<3>>, <<1, 1>>, <<2, 2>>, <<2, 3>>, <<0, 2>>, <<2, 0>>>>
ShapesT == ShapesQ \o <<<<5>>, <<3, 1>>, <<2, 1, 2>>, <<0, 0>>, <<1, 0, 2>>>>
Shapes  == IF Thorough THEN ShapesT ELSE ShapesQ
DtypesQ == <<"int32", "int64", "float32", "float64", "int8", "uint16", "float16", "bool", "float128">>
DtypesT == DtypesQ \o <<"int16", "uint8", "uint32", "uint64">>
Dtypes  == IF Thorough THEN DtypesT ELSE DtypesQ
ArraysOf(dt) ==
  LET signed == dt \in {"int8", "int16", "int32", "int64"}
  IN  Concat([s \in 1..Len(Shapes) |->
        LET sh == Shapes[s]  len == Prod(sh)
        IN  IF dt = "bool" THEN <<Arr(dt, sh, [i \in 1..len |-> <<(i * i) % 2, 1>>])>>     \* True False True ...
            ELSE IF DtKind(dt) = "int"
            THEN <<Arr(dt, sh, DataInt(len))>> \o (IF signed /\ len > 0 THEN <<Arr(dt, sh, DataIntNeg(len))>> ELSE <<>>)
            ELSE <<Arr(dt, sh, DataFloat(len))>>
                 \o (IF len > 0 THEN <<Arr(dt, sh, DataFloatInt(len)), Arr(dt, sh, DataFloatInf(len))>> ELSE <<>>)])
Arrays == Concat([k \in 1..Len(Dtypes) |-> ArraysOf(Dtypes[k])])

\* nesting 2: lists whose elements are themselves containers
D1q == <<List(<<>>), List(<<Num("PyInt", 1, 1), Num("NpFloat32", 3, 2)>>), List(<<Str("x")>>),
         SetV({}), SetV({Num("PyInt", 1, 1), Str("a")}), SetV({Num("NpFloat32", -1, 4)}),
         Arr("float32", <<2>>, <<<<3, 2>>, <<-1, 4>>>>), Arr("int32", <<2, 2>>, DataIntNeg(4)), Arr("float64", <<0, 2>>, <<>>),
         Num("NpFloat64", 3, 2), Str("ab"), Num("NpInt64", 7, 1)>>
D1t == D1q \o <<List(<<Num("NpInt8", 7, 1), Num("PyFloat", 2, 1)>>), SetV({Num("NpFloat16", 3, 2), Num("NpUInt8", 200, 1)}),
                Arr("int8", <<3>>, DataIntNeg(3)), Arr("float16", <<1, 2>>, DataFloat(2))>>
D1  == IF Thorough THEN D1t ELSE D1q
\* nesting 3 (thorough): lists of lists of containers
D2  == <<List(<<List(<<Num("NpFloat32", 3, 2)>>), SetV({Num("PyFloat", 3, 2)})>>),
         List(<<List(<<>>), List(<<List(<<>>)>>)>>),
         List(<<Arr("float32", <<1, 2>>, DataFloat(2)), List(<<Arr("int64", <<0>>, <<>>)>>)>>),
         List(<<SetV({Str("a"), Num("NpInt16", -3, 1)}), Num("PyInt", 0, 1)>>)>>

\* a few longer lists and sets in every tier (the product pools of the quick tier stop at length 2)
LongPool == <<List(<<Num("PyInt", 1, 1), Num("PyInt", 2, 1), Num("PyInt", 3, 1)>>),
              List(<<Num("PyFloat", 3, 2), Num("PyInt", 2, 1), Num("NpFloat64", -1, 4), Num("NpInt32", 7, 1)>>),
              List(<<Str("a"), Str("b"), Str("ab"), Str(""), Str("x")>>),
              SetV({Num("PyInt", 1, 1), Num("PyInt", 2, 1), Num("PyFloat", 5, 2), Str("a")}),
              List(<<List(<<Num("PyInt", 1, 1), Num("PyInt", 2, 1), Num("PyInt", 3, 1)>>), List(<<>>), List(<<Num("PyFloat", 1, 2)>>)>>)>>
ValuePool ==
  ScalarPool \o LongPool \o Lists(E1, IF Thorough THEN 3 ELSE 2) \o Sets(S1, IF Thorough THEN 3 ELSE 2) \o Arrays
  \o Lists(D1, 2) \o (IF Thorough THEN Lists(D2, 2) ELSE <<>>)

\* ---- SimulationParameters contents ----
AP5  == Arr("int64", <<5>>, [i \in 1..5 |-> <<5 * (i - 1), 1>>])            \* 0 5 10 15 20
APf  == Arr("float64", <<4>>, [i \in 1..4 |-> RNorm(i - 3, 2)])             \* -1.0 -0.5 0.0 0.5
PBase ==
  << <<PV("arr", AP5), PV("lst", List(<<Num("PyInt", 1, 1), Num("PyFloat", 3, 2)>>)), PV("num", Num("NpFloat32", 3, 2)),
       PV("set", SetV({Str("a"), Num("PyInt", 2, 1)})), PV("str", Str("ab"))>>,
     <<PV("str", Str("qpsk")), PV("arr", Arr("float32", <<3>>, DataFloat(3))),
       PV("lst", List(<<Str("x"), List(<<Num("PyInt", 1, 1)>>)>>)), PV("num", Num("NpInt16", -3, 1)),
       PV("rep_max", Num("PyInt", 100, 1))>>,
     <<PV("arr", Arr("int32", <<2, 2>>, DataIntNeg(4))), PV("lst", List(<<>>)), PV("num", Num("PyFloat", 1, 10)),
       PV("set", SetV({}))>>,
     <<PV("num", Num("NpInt64", 7, 1)), PV("arr", APf), PV("str", Str("x")),
       PV("lst", List(<<Num("NpFloat32", -1, 4), SetV({Num("PyInt", 1, 1)}), Arr("int8", <<2>>, DataIntNeg(2))>>))>>,
     \* infinities everywhere (scalar, list element, array element -> unpacked children)
     <<PV("num", Num("NpFloat64", 1, 0)), PV("arr", Arr("float64", <<3>>, DataFloatInf(3))),
       PV("lst", List(<<Num("PyFloat", -1, 0), Num("PyInt", 0, 1), Num("NpFloat32", 1, 0)>>)), PV("str", Str("ab"))>>,
     \* strings that look like format fields, one naming another parameter
     <<PV("str", Str("c{num}")), PV("num", Num("PyInt", 0, 1)), PV("lst", List(<<Str("{0}"), Str("set{{A}}"), Str("s@u{dcff}@@u{1f600}@")>>)),
       PV("arr", Arr("int64", <<2>>, DataInt(2)))>>,
     \* a 3-D array (children are 2-D arrays), nested empty lists, a narrow float, the empty string
     <<PV("arr", Arr("float16", <<2, 1, 2>>, DataFloat(4))), PV("lst", List(<<List(<<>>), List(<<Num("NpUInt8", 200, 1)>>)>>)),
       PV("num", Num("NpFloat16", -1, 4)), PV("str", Str(""))>>,
     \* zero-length arrays (1-D and 2-D) and a flag
     <<PV("num", Num("PyInt", 3, 1)), PV("str", Str("ab")), PV("arr", Arr("float64", <<0>>, <<>>)),
       PV("a2", Arr("int64", <<2, 0>>, <<>>)), PV("flag", Num("NpBool", 1, 1))>> >>
\* a vector that is a prefix + a progression + a suffix (mixed range text), a list, a set, None (file names only)
PMixed ==
     <<PV("num", Num("PyInt", 1, 1)), PV("str", Str("ab")),
       PV("arr", Arr("int64", <<12>>, <<<<1, 1>>, <<2, 1>>, <<3, 1>>, <<5, 1>>, <<10, 1>>, <<15, 1>>, <<20, 1>>, <<25, 1>>,
                                        <<30, 1>>, <<35, 1>>, <<40, 1>>, <<100, 1>>>>)),
       PV("lst", List(<<Num("PyInt", 1, 1), Num("PyFloat", 3, 2), Str("x")>>)), PV("set", SetV({Num("PyInt", 1, 1)})),
       PV("non", NoneV), PV("flt", Arr("float64", <<4>>, <<<<1, 1>>, <<2, 1>>, <<4, 1>>, <<8, 1>>>>))>>
PExtra ==
  << <<PV("arr", Arr("uint16", <<3>>, DataInt(3))), PV("num", Num("NpUInt64", 7, 1)),
       PV("set", SetV({Num("NpFloat32", 3, 2), Num("NpInt8", -3, 1), Str("b")})), PV("rep_max", Num("NpInt32", 7, 1))>>,
     <<>> >>
PContents == IF Thorough THEN PBase \o PExtra ELSE PBase
IterNames(ps) == {ps[i].name : i \in {k \in 1..Len(ps) : ps[k].val.t \in {"List", "Set", "Str", "Array"}}}

\* ---- Result histories ----
U(v)     == [op |-> "upd", v |-> v, tot |-> Num("PyInt", 0, 1), rd |-> <<>>]
UR(v, t) == [op |-> "upd", v |-> v, tot |-> t, rd |-> <<>>]
MG(Rd)   == [op |-> "merge", v |-> NoneV, tot |-> Num("PyInt", 1, 1), rd |-> <<Rd>>]
SumAlpha == <<U(Num("PyInt", 3, 1)), U(Num("PyFloat", 1, 2)), U(Num("NpInt32", -2, 1)), U(Num("NpFloat32", 3, 2)),
              U(Num("NpFloat64", 1, 4)), U(Num("NpInt64", 5, 1)), U(Num("PyFloat", 0, 1)), U(Num("PyInt", 0, 1)),
              U(Num("PyFloat", 1, 0)), U(Num("NpFloat32", 1, 0)), U(Num("NpLongDouble", 3, 2))>>
RatioAlpha == <<UR(Num("PyInt", 1, 1), Num("PyInt", 4, 1)), UR(Num("PyInt", 1, 1), Num("PyInt", 3, 1)),
                UR(Num("NpInt64", 3, 1), Num("NpInt64", 8, 1)), UR(Num("NpFloat32", 3, 2), Num("PyInt", 2, 1)),
                UR(Num("PyInt", 0, 1), Num("NpInt32", 5, 1)), UR(Num("PyFloat", 1, 2), Num("PyFloat", 5, 2)),
                UR(Num("PyFloat", 1, 0), Num("PyInt", 4, 1))>>
MiscAlpha == <<U(Num("PyInt", 3, 1)), U(Str("some string")), U(SetV({Num("PyInt", 1, 1), Num("PyFloat", 5, 2)})),
               U(List(<<Num("NpFloat32", 3, 2), Str("x")>>)), U(Num("NpFloat32", 3, 2)), U(Num("PyFloat", 2, 1)),
               U(Str("")), U(NoneV), U(List(<<>>)), U(Num("PyInt", 0, 1)), U(Num("NpFloat64", -1, 0)), U(Str("v{num}")),
               U(Num("PyBool", 0, 1)), U(Num("NpBool", 1, 1))>>
ChoiceAlpha == <<U(Num("PyInt", 2, 1)), U(Num("PyInt", 0, 1)), U(Num("NpInt64", 1, 1)), U(Num("NpInt32", 2, 1))>>
NarrowAlpha == <<U(Num("NpInt8", 7, 1)), U(Num("NpUInt16", 7, 1)), U(Num("NpFloat16", 3, 2))>>
AlphaOf(ty) == CASE ty = SUMT -> SumAlpha [] ty = RATIOT -> RatioAlpha [] ty = MISCT -> MiscAlpha [] ty = CHOICET -> ChoiceAlpha
\* histories of length <= 3: quick uses the first 4 letters for length 3, thorough all
Hists(alpha) ==
  LET n == Len(alpha)   m == IF Thorough THEN n ELSE 4
  IN  <<<<>>>> \o [i \in 1..n |-> <<alpha[i]>>]
      \o [k \in 1..n * n |-> <<alpha[((k - 1) \div n) + 1], alpha[((k - 1) % n) + 1]>>]
      \o [k \in 1..m * m * m |-> <<alpha[((k - 1) \div (m * m)) + 1], alpha[(((k - 1) \div m) % m) + 1], alpha[((k - 1) % m) + 1]>>]
\* Well-conditioned histories (excluded IN THE SPEC): an accumulator that becomes float32/float16 only ever
\* sees dyadic values, so that every statistic is exactly representable in that width.
IsPow2(d) == d \in {1, 2, 4, 8, 16, 32, 64, 128, 256, 512, 1024, 2048, 4096}
LetterDyadic(ty, u) == IF IsNum(u.v) /\ IsInf(u.v) THEN TRUE ELSE IF ty = RATIOT THEN IsPow2(RDiv(<<u.v.n, u.v.d>>, <<u.tot.n, u.tot.d>>)[2])
                       ELSE IF IsNum(u.v) THEN IsPow2(u.v.d) ELSE TRUE
Narrow(v) == v.t \in {"NpFloat32", "NpFloat16"}
RECURSIVE Updates(_)
Updates(h) == IF h = <<>> THEN <<>>          \* every update letter of a history, merged results included
              ELSE (IF Head(h).op = "merge" THEN Updates(Head(h).rd[1].hist) ELSE <<Head(h)>>) \o Updates(Tail(h))
HistOk(ty, hh) == LET h == Updates(hh) IN
                 IF ty = MISCT THEN TRUE
                 ELSE IF \E i \in 1..Len(h) : Narrow(h[i].v) \/ Narrow(h[i].tot)
                      THEN \A i \in 1..Len(h) : LetterDyadic(ty, h[i]) ELSE TRUE
MkR(name, ty, acc, hist) == [name |-> name, type |-> ty, acc |-> acc, nch |-> IF ty = CHOICET THEN 3 ELSE 0, hist |-> hist]
\* update / merge histories BEFORE the round trip: merge with a never-updated result, with an updated one, into a
\* never-updated one, and an update after a merge (3 letters per alphabet; all types, both accumulate settings)
MergeHists(ty, acc) ==
  LET al == AlphaOf(ty)   R0(h) == MkR("res", ty, acc, h)   n == 3
  IN  <<<<MG(R0(<<>>))>>>>
      \o [i \in 1..n |-> <<al[i], MG(R0(<<>>))>>]
      \o [k \in 1..n * n |-> <<al[((k - 1) \div n) + 1], MG(R0(<<al[((k - 1) % n) + 1]>>))>>]
      \o [k \in 1..n * n |-> <<MG(R0(<<al[((k - 1) \div n) + 1], al[((k - 1) % n) + 1]>>))>>]
      \o [k \in 1..n * n |-> <<al[((k - 1) \div n) + 1], MG(R0(<<>>)), al[((k - 1) % n) + 1]>>]
      \o [i \in 1..n |-> <<MG(R0(<<al[i]>>)), MG(R0(<<>>))>>]
MergePool ==
  Concat([ty \in 1..4 |-> Concat([a \in 1..2 |->
      LET hs == SelectSeq(MergeHists(ty - 1, a = 2), LAMBDA h : HistOk(ty - 1, h)) IN [h \in 1..Len(hs) |-> MkR("res", ty - 1, a = 2, hs[h])]])])
\* CHOICETYPE with one choice and with six (largest index only, first and last, never updated)
MkRn(ty, acc, nch, hist) == [name |-> "res", type |-> ty, acc |-> acc, nch |-> nch, hist |-> hist]
ChoicePool ==
  Concat([a \in 1..2 |->
     <<MkRn(CHOICET, a = 2, 1, <<>>), MkRn(CHOICET, a = 2, 1, <<U(Num("PyInt", 0, 1)), U(Num("NpInt64", 0, 1))>>),
       MkRn(CHOICET, a = 2, 6, <<>>), MkRn(CHOICET, a = 2, 6, <<U(Num("PyInt", 5, 1))>>),
       MkRn(CHOICET, a = 2, 6, <<U(Num("NpInt32", 5, 1)), U(Num("PyInt", 0, 1)), U(Num("PyInt", 5, 1))>>)>>])
ResultPool ==
  Concat([ty \in 1..4 |-> Concat([a \in 1..2 |->
      LET hs == SelectSeq(Hists(AlphaOf(ty - 1)), LAMBDA h : HistOk(ty - 1, h)) IN [h \in 1..Len(hs) |-> MkR("res", ty - 1, a = 2, hs[h])]])])
  \o Concat([a \in 1..2 |-> [h \in 1..Len(NarrowAlpha) |-> MkR("res", SUMT, a = 2, <<NarrowAlpha[h]>>)]])
  \o MergePool \o ChoicePool

\* ---- SimulationResults ----
FalsyResSet ==
  << [name |-> "", rs |-> <<MkR("", SUMT, FALSE, <<U(Num("PyInt", 0, 1))>>)>>],
     [name |-> "zero", rs |-> <<MkR("zero", SUMT, TRUE, <<U(Num("PyFloat", 0, 1)), U(Num("PyInt", 0, 1))>>)>>],
     [name |-> "r0", rs |-> <<MkR("r0", RATIOT, TRUE, <<UR(Num("PyInt", 0, 1), Num("PyInt", 4, 1))>>), MkR("r0", RATIOT, TRUE, <<>>)>>],
     [name |-> "m", rs |-> <<MkR("m", MISCT, TRUE, <<U(Str("")), U(List(<<>>)), U(Num("PyInt", 0, 1))>>)>>],
     [name |-> "mset", rs |-> <<MkR("mset", MISCT, FALSE, <<U(SetV({}))>>)>>],
     [name |-> "none", rs |-> <<MkR("none", MISCT, FALSE, <<U(NoneV)>>)>>],
     [name |-> "c", rs |-> <<MkR("c", CHOICET, TRUE, <<U(Num("PyInt", 0, 1))>>), MkR("c", CHOICET, FALSE, <<>>)>>],
     [name |-> "inf", rs |-> <<MkR("inf", SUMT, TRUE, <<U(Num("PyFloat", 1, 0)), U(Num("PyInt", 3, 1))>>)>>],
     [name |-> "b{num}%", rs |-> <<MkR("b{num}%", MISCT, FALSE, <<U(Str("{0}"))>>)>>],
     [name |-> "C", rs |-> <<MkR("C", SUMT, FALSE, <<U(Num("PyInt", 1, 1))>>)>>],
     \* text is data in every route: non-ASCII, astral and LONE SURROGATE code points (a name from os.fsdecode) in a
     \* result name and a value.  @u{hex}@ stands for the code point (the harness substitutes it; the model treats text as opaque)
     [name |-> "n@u{e9}@@u{dcff}@", rs |-> <<MkR("n@u{e9}@@u{dcff}@", MISCT, TRUE, <<U(Str("v@u{dcff}@ @u{1f600}@")), U(Num("NpLongDouble", 3, 2))>>)>>] >>
ResSets ==
  << << [name |-> "ber", rs |-> <<MkR("ber", RATIOT, FALSE, <<RatioAlpha[1]>>), MkR("ber", RATIOT, FALSE, <<RatioAlpha[3], RatioAlpha[1]>>)>>],
        [name |-> "sum", rs |-> <<MkR("sum", SUMT, TRUE, <<SumAlpha[1], SumAlpha[2]>>)>>] >>,
     << [name |-> "misc", rs |-> <<MkR("misc", MISCT, FALSE, <<MiscAlpha[3]>>)>>],
        [name |-> "choice", rs |-> <<MkR("choice", CHOICET, TRUE, <<ChoiceAlpha[1], ChoiceAlpha[2]>>)>>],
        [name |-> "elapsed_time", rs |-> <<MkR("elapsed_time", SUMT, FALSE, <<SumAlpha[2]>>)>>] >>,
     << >>,
     << [name |-> "s32", rs |-> <<MkR("s32", SUMT, TRUE, <<SumAlpha[4]>>)>>],
        [name |-> "ratio0", rs |-> <<MkR("ratio0", RATIOT, FALSE, <<>>)>>],
        [name |-> "n8", rs |-> <<MkR("n8", SUMT, FALSE, <<NarrowAlpha[1]>>), MkR("n8", SUMT, FALSE, <<NarrowAlpha[3]>>)>>] >>,
     FalsyResSet >>
\* every scalar field takes its FALSY-BUT-VALID values too (0, 0.0, "", None, empty containers): a decoder that
\* tests a field for truth instead of presence loses exactly those
RunnedPool  == <<NoneV, Num("PyInt", 7, 1), List(<<Num("PyInt", 3, 1), Num("PyInt", 4, 1)>>),
                 Num("PyInt", 0, 1), List(<<Num("PyInt", 0, 1), Num("PyInt", 0, 1)>>), List(<<>>)>>
CurrentPool == <<-1, 0, 1, 500>>
OrigPool    == <<NoneV, Str(""), Str("x_{num}.json")>>      \* original_filename of an object that was never saved / set by hand
Templates == << <<Lit("res_"), Par("num"), Lit("_"), Par("str")>>,
                <<Lit("r("), Par("arr"), Lit(")_"), Par("num"), Lit("_x")>>,
                <<Lit("plain")>>,
                <<LitE("e{x}_", "e{{x}}_"), Par("str"), LitE("}", "}}")>>,
                <<Lit("m_"), Par("num"), Lit("_"), Par("absent")>>,                       \* names a parameter nobody has
                <<Lit("t_"), Par("arr"), Lit("_"), Par("lst"), Lit("_"), Par("non"), Par("set"), Par("flt")>> >>  \* (rel) texts
Exts == <<".json", ".pickle", "">>
\* parameter objects stored in results: plain, with marks, and an unpacked child
SParams == <<MkP(PBase[1], {}, -1, <<>>), MkP(PBase[1], {"arr", "lst"}, -1, <<>>),
             Child(MkP(PBase[1], {"arr", "lst"}, -1, <<>>), 3),
             MkP(PBase[2], {"arr"}, -1, <<>>), Child(MkP(PBase[2], {"arr", "str"}, -1, <<>>), 6),
             MkP(PBase[4], {}, -1, <<>>), Child(MkP(PBase[4], {"arr"}, -1, <<>>), 1),
             Child(MkP(PBase[5], {"arr"}, -1, <<>>), 2), MkP(PBase[6], {"str"}, -1, <<>>),
             \* parameters holding arrays that are not non-empty vectors (2-D, zero length), and (rel) texts
             MkP(PBase[3], {}, -1, <<>>), Child(MkP(PBase[3], {"arr"}, -1, <<>>), 0), MkP(PBase[8], {"arr"}, -1, <<>>),
             MkP(PMixed, {}, -1, <<>>)>>

\* ---- file names ----
FnPool == SelectSeq(ScalarPool, LAMBDA v : v.s # "" \/ IsNum(v) \/ IsBool(v))      \* the empty string is excluded
FnTemplate == <<Lit("out_"), Par("num"), Lit("_end.json")>>

(* ==================================== the star machine ========================================== *)
\* which deviation flags change what this case looks like (argument class of the finding signatures)
RelP(P)   == {f \in DevNames : LET t == EncP(P, Only(f)) IN
                 \/ t # EncP(P, Dev0)
                 \/ (~Raises(t) /\ DecP(t, Only(f)) # DecP(EncP(P, Dev0), Dev0))}
RelR(st)  == {f \in DevNames : LET t == EncR(st, Only(f)) IN
                 \/ t # EncR(st, Dev0) \/ DecRRaises(t, Only(f))
                 \/ (~Raises(t) /\ ~DecRRaises(t, Only(f)) /\ DecR(t, Only(f)) # DecR(EncR(st, Dev0), Dev0))}
RelS(S)   == {f \in DevNames : LET t == EncS(S, Only(f)) IN
                 \/ t # EncS(S, Dev0) \/ DecSRaises(t, Only(f))
                 \/ (~Raises(t) /\ ~DecSRaises(t, Only(f)) /\ DecS(t, Only(f)) # DecS(EncS(S, Dev0), Dev0))}

\* FRAME CONDITIONS required of every replayed call sequence (evaluated by the harness on the real objects):
\*   ArgumentsUnchanged         the dictionary / values handed to create() and update() are the same afterwards
\*   QueryIsPure                to_json, to_dict, pickling, save_to_file, get_filename..., == and the getters leave the
\*                              saved object as the model describes it (original_filename excepted for save_to_file)
\*   EarlierResultsUnchanged    the object obtained from the first load is still the same after the second save/load
\*   LoadedIsIndependent        changing the loaded object does not change the saved one
\*   ReturnedNameIsTheFile      the name save_to_file returns is the name of the one file that appeared; it loads back equal
\*   RejectedSaveChangesNothing a save that raises (unknown extension, missing directory) leaves parameters, results,
\*                              counters and the directory as they were (original_filename is NOT demanded: the code as
\*                              found records the template before it validates - reported in notes/C17.md)
ReqObject == {"ArgumentsUnchanged", "QueryIsPure", "EarlierResultsUnchanged", "LoadedIsIndependent"}
ReqFiles  == ReqObject \cup {"ReturnedNameIsTheFile", "RejectedSaveChangesNothing"}
\* hypothetical decoder that distrusts an index not smaller than the variation count of the ROOT object
RECURSIVE RootOf(_)
RootOf(P) == IF Len(P.parent) = 0 THEN P ELSE RootOf(P.parent[1])
ClampIdx(P) == IF Hyp.IndexClampedToRootCount /\ Len(P.parent) = 1 /\ CanChild(RootOf(P))
                  /\ P.index >= NumVar(RootOf(P)) THEN [P EXCEPT !.index = -1] ELSE P
ParamsCaseRec(kind, id, P, k) ==
  LET t  == EncP(P, Dev)
      ok == ~Raises(t)
      b  == IF ok THEN ClampIdx(DecP(t, Dev)) ELSE P
  IN  [kind |-> kind, id |-> id, P |-> P, k |-> k, tree |-> t, encRaises |-> ~ok, back |-> b,
       tree2 |-> IF ok THEN EncP(b, Dev) ELSE t, rel |-> RelP(P), eqdef |-> EqDefinedP(P), req |-> ReqObject]

ValueCase ==
  /\ c.kind = "init" /\ Family = "value"
  /\ \E i \in 1..Len(ValuePool) :
        /\ Pick(i)
        /\ c' = ParamsCaseRec("value", <<i>>, MkP(<<PV("lst", ValuePool[i])>>, {}, -1, <<>>), -1)

RECURSIVE MarkCodeFrom(_, _)
MarkCodeFrom(marks, i) == IF i > Len(NameOrder) THEN 0
                          ELSE (IF NameOrder[i] \in marks THEN 2 ^ (i - 1) ELSE 0) + MarkCodeFrom(marks, i + 1)
MarkCode(marks) == MarkCodeFrom(marks, 1)        \* the subset of marks as a bit mask (part of the case identity)
ParamsCase ==
  /\ c.kind = "init" /\ Family = "params"
  /\ \E i \in 1..Len(PContents) : \E marks \in SUBSET IterNames(PContents[i]) :
        LET P == MkP(PContents[i], marks, -1, <<>>)
        IN  \E k \in -1..(IF CanChild(P) /\ marks # {} THEN NumVar(P) - 1 ELSE -1) :
              /\ Pick(i + Cardinality(marks) + k + 1)
              /\ c' = ParamsCaseRec("params", <<i, MarkCode(marks), k>>, IF k < 0 THEN P ELSE Child(P, k), k)

(* ---------------- unpacking HISTORIES before the round trip --------------------------------------------------
   A parameters object is what a recipe of operations leaves: create, mark names, take child k (the child refers to
   the object it was taken from), mark names ON THE CHILD and take a child of it (two-level unpacking: the index of a
   grandchild counts the child's variations, not the root's), and changes made to the parent AFTER the children
   were taken (the children hold a live reference): the marked parameter shortened, a mark removed, another
   parameter replaced.  The object at the end of the recipe - index, marks, the whole chain of parents as they are
   NOW - must survive every route (MarksPreserved looks at the first parent, RoundTripFaithful at the whole chain). *)
SetParam(P, nm, v) == IF nm \in Names(P)
                      THEN [P EXCEPT !.params = [i \in 1..Len(P.params) |-> IF P.params[i].name = nm THEN PV(nm, v) ELSE P.params[i]]]
                      ELSE [P EXCEPT !.params = Append(@, PV(nm, v))]
ROp(op, names, k, name, val) == [op |-> op, names |-> names, k |-> k, name |-> name, val |-> val]
Shorten(v) == IF v.t = "List" THEN List(SubSeq(v.items, 1, 1))
              ELSE Arr(v.dtype, <<1>> \o Tail(v.shape), SubSeq(v.data, 1, Prod(Tail(v.shape))))
RStep(P, o) ==
  CASE o.op = "mark"      -> [P EXCEPT !.unpacked = @ \cup o.names]
    [] o.op = "child"     -> Child(P, o.k)
    [] o.op = "parentset" -> [P EXCEPT !.parent = <<SetParam(@[1], o.name, o.val)>>]
    [] o.op = "parentunmark" -> [P EXCEPT !.parent = <<[@[1] EXCEPT !.unpacked = @ \ {o.name}]>>]
RECURSIVE RecipeFold(_, _, _)
RecipeFold(P0, ops, n) == IF n = 0 THEN P0 ELSE RStep(RecipeFold(P0, ops, n - 1), ops[n])
Unpackable(P) == {nm \in Names(P) : Val(P, nm).t \in {"List", "Array"} /\ Len(Iter(Val(P, nm))) >= 1}
UnpContents == <<PBase[1], PBase[2], PBase[4], PBase[6], PBase[7]>>
UnpHistCase ==
  /\ c.kind = "init" /\ Family = "params"
  /\ \E i \in 1..Len(UnpContents) :
     LET P0 == MkP(UnpContents[i], {}, -1, <<>>) IN
     \E n1 \in Unpackable(P0) :
     LET P1 == [P0 EXCEPT !.unpacked = {n1}]   L1 == NumVar(P1) IN
     \E k1 \in {0, L1 - 1} :
     LET C == Child(P1, k1)   i1 == CHOOSE x \in 1..Len(NameOrder) : NameOrder[x] = n1 IN
       \/ \* two-level unpacking: a grandchild
          \E n2 \in Unpackable(C) :
          LET C2 == [C EXCEPT !.unpacked = {n2}]   i2 == CHOOSE x \in 1..Len(NameOrder) : NameOrder[x] = n2 IN
          \E k2 \in 0..NumVar(C2) - 1 :
             LET ops == <<ROp("mark", {n1}, 0, "", NoneV), ROp("child", {}, k1, "", NoneV),
                          ROp("mark", {n2}, 0, "", NoneV), ROp("child", {}, k2, "", NoneV)>>
             IN  /\ Pick(i + k1 + k2)
                 /\ c' = [ParamsCaseRec("unphist", <<i, i1, k1, i2, k2>>, RecipeFold(P0, ops, 4), k2)
                          EXCEPT !.req = @ \cup {"IndexCountsTheParentsVariations"}] @@ [P0 |-> P0, recipe |-> ops]
       \/ \* the parent is changed after the child was taken
          \E v \in 1..3 :
             LET chg == CASE v = 1 -> ROp("parentset", {}, 0, n1, Shorten(Val(P0, n1)))
                          [] v = 2 -> ROp("parentunmark", {}, 0, n1, NoneV)
                          [] v = 3 -> ROp("parentset", {}, 0, "num", Num("PyInt", 12345, 1))
                 ops == <<ROp("mark", {n1}, 0, "", NoneV), ROp("child", {}, k1, "", NoneV), chg>>
             IN  /\ Pick(i + k1 + v)
                 /\ c' = [ParamsCaseRec("unphist", <<i, i1, k1, 0, -v>>, RecipeFold(P0, ops, 3), k1)
                          EXCEPT !.req = @ \cup {"ChildSeesTheParentAsItIsNow"}] @@ [P0 |-> P0, recipe |-> ops]

ResultCase ==
  /\ c.kind = "init" /\ Family = "result"
  /\ \E i \in 1..Len(ResultPool) :
        /\ Pick(i)
        /\ LET Rd == ResultPool[i]
               st == RState(Rd)
               t  == EncR(st, Dev)
               ok == ~Raises(t) /\ ~DecRRaises(t, Dev)
               b  == IF ok THEN DecR(t, Dev) ELSE st
           IN  c' = [kind |-> "result", id |-> <<i>>, rd |-> Rd, st |-> st, tree |-> t, encRaises |-> Raises(t),
                     decRaises |-> ~Raises(t) /\ DecRRaises(t, Dev), back |-> b,
                     tree2 |-> IF ok THEN EncR(b, Dev) ELSE t, rel |-> RelR(st), req |-> ReqObject]

\* the quick tier keeps one forty-first of the product (every value of every pool, and every PAIR of values of the
\* scalar-field pools with every extension, occurs: checked by QuickPairsCovered) plus two slices of special cases
QuickKeep(p, r, u, cu, tp, e) ==
  IF Thorough THEN TRUE
  ELSE IF (p + 2 * r + 3 * u + 5 * cu + 7 * tp + e) % 41 = 0 THEN TRUE
  ELSE IF p >= 10 /\ r = 1 /\ u = 1 /\ cu = 2 THEN TRUE          \* the array-shape / (rel) name contents with every template
  ELSE IF r >= 4 /\ tp = 1 /\ e = 1 /\ p = 1 THEN TRUE
  ELSE p = 3 /\ u = 1 /\ cu = 2 /\ tp = 1
\* the selection is not accidental: each current_rep value and each runned_reps value meets each extension
QuickPairsCovered ==
  /\ \A cu \in 1..Len(CurrentPool) : \A e \in 1..Len(Exts) :
        \E p \in 1..Len(SParams) : \E r \in 1..Len(ResSets) : \E u \in 1..Len(RunnedPool) : \E tp \in {1, 3, 4} :
           QuickKeep(p, r, u, cu, tp, e)
  /\ \A u \in 1..Len(RunnedPool) : \A e \in 1..Len(Exts) :
        \E p \in 1..Len(SParams) : \E r \in 1..Len(ResSets) : \E cu \in 1..Len(CurrentPool) : \E tp \in {1, 3, 4} :
           QuickKeep(p, r, u, cu, tp, e)
  /\ \A r \in 1..Len(ResSets) : \A e \in 1..Len(Exts) :
        \E p \in 1..Len(SParams) : \E u \in 1..Len(RunnedPool) : \E cu \in 1..Len(CurrentPool) : \E tp \in {1, 3, 4} :
           QuickKeep(p, r, u, cu, tp, e)
ASSUME QuickPairsCovered
StatesOf(rset) == [i \in 1..Len(rset) |-> [name |-> rset[i].name, rs |-> [k \in 1..Len(rset[i].rs) |-> RState(rset[i].rs[k])]]]
ResultsCase ==
  /\ c.kind = "init" /\ Family = "results"
  /\ \E p \in 1..Len(SParams) : \E r \in 1..Len(ResSets) : \E u \in 1..Len(RunnedPool) : \E cu \in 1..Len(CurrentPool) :
     \E tp \in 1..Len(Templates) : \E e \in 1..Len(Exts) :
        /\ Pick(p + r + u + cu + tp + e)
        /\ QuickKeep(p, r, u, cu, tp, e)
        /\ TemplateOk(Templates[tp], SParams[p])
        /\ LET tk == WithExt(Templates[tp], Exts[e])
               S  == [params |-> SParams[p], runned |-> RunnedPool[u], current |-> CurrentPool[cu],
                      orig |-> Str("@DIR@/" \o TemplateText(tk)), res |-> StatesOf(ResSets[r])]
               t  == EncS(S, Dev)
               ok == ~Raises(t) /\ ~DecSRaises(t, Dev)
               b  == IF ok THEN DecS(t, Dev) ELSE S
           IN  c' = [kind |-> "results", id |-> <<p, r, u, cu, tp, e>>, S |-> S, rd |-> ResSets[r],
                     template |-> TemplateText(Templates[tp] \o <<Lit(Exts[e])>>),
                     relname |-> RelName(tk, SParams[p]),
                     fname |-> IF RelName(tk, SParams[p]) THEN "" ELSE FileName(tk, SParams[p]),
                     fnameRaises |-> Dev.FileNameFailsForNonVectorArray /\ HasNonVector(SParams[p]),
                     json |-> Exts[e] = ".json",
                     tree |-> t, encRaises |-> Raises(t), decRaises |-> ~Raises(t) /\ DecSRaises(t, Dev), back |-> b,
                     tree2 |-> IF ok THEN EncS(b, Dev) ELSE t,
                     rel |-> RelS(S) \cup (IF HasNonVector(SParams[p]) THEN {"FileNameFailsForNonVectorArray"} ELSE {}),
                     eqdef |-> EqDefinedP(SParams[p]), req |-> ReqFiles]

\* SimulationResults as a STRING only (never saved: original_filename None / "" / set by hand): the full product of
\* the scalar-field pools, in every tier
FieldParams == <<SParams[1], SParams[3]>>
FieldResSets == <<FalsyResSet, <<>>, ResSets[1]>>
FieldsCase ==
  /\ c.kind = "init" /\ Family = "fields"
  /\ \E p \in 1..Len(FieldParams) : \E r \in 1..Len(FieldResSets) : \E u \in 1..Len(RunnedPool) :
     \E cu \in 1..Len(CurrentPool) : \E o \in 1..Len(OrigPool) :
        /\ Pick(p + r + u + cu + o)
        /\ LET S  == [params |-> FieldParams[p], runned |-> RunnedPool[u], current |-> CurrentPool[cu],
                      orig |-> OrigPool[o], res |-> StatesOf(FieldResSets[r])]
               t  == EncS(S, Dev)
               ok == ~Raises(t) /\ ~DecSRaises(t, Dev)
               b  == IF ok THEN DecS(t, Dev) ELSE S
           IN  c' = [kind |-> "fields", id |-> <<p, r, u, cu, o>>, S |-> S, rd |-> FieldResSets[r],
                     tree |-> t, encRaises |-> Raises(t), decRaises |-> ~Raises(t) /\ DecSRaises(t, Dev), back |-> b,
                     tree2 |-> IF ok THEN EncS(b, Dev) ELSE t, rel |-> RelS(S), eqdef |-> EqDefinedP(FieldParams[p]), req |-> ReqObject]

(* ---------------- multi-step save histories on ONE SimulationResults object ------------------------------------
   A small machine folded over an operation sequence: the object S, the directory (file name -> what was saved into
   it), the name of the last file.  Operations: save through a template (.json / .pickle), change a parameter IN
   PLACE (params.add / params[name] = v: existing name, new name, a string that looks like a placeholder), replace
   the parameters (set_parameters), update a stored result, set current_rep, replace the object by what the last
   file holds (reload).  Laws: SaveNameIsCurrent - the name of every save is the template filled with the
   parameters AS THEY ARE at that moment; the directory after every step is exactly the files the machine holds, each
   loading back as the object that was saved into it last (evaluated by the harness after every step).
   Hyp.StaleNameCache keeps the first name per template until set_parameters (and inside pickles): refuted by TLC.  *)
HOp(op, tk, ext, name, val, P) == [op |-> op, tk |-> tk, ext |-> ext, name |-> name, val |-> val, P |-> P]
HNoP == MkP(<<>>, {}, -1, <<>>)
HT1  == <<Lit("h_"), Par("num"), Lit("_"), Par("str")>>
HT2  == <<Lit("g_"), Par("str")>>
HP0  == MkP(<<PV("num", Num("PyFloat", 3, 2)), PV("str", Str("ab")), PV("arr", Arr("int64", <<2>>, DataInt(2)))>>, {}, -1, <<>>)
HP1  == MkP(<<PV("str", Str("qpsk")), PV("num", Num("PyFloat", 2, 1))>>, {}, -1, <<>>)
HS0  == [params |-> HP0, runned |-> NoneV, current |-> 0, orig |-> NoneV,
         res |-> StatesOf(<<[name |-> "s", rs |-> <<MkR("s", SUMT, FALSE, <<U(Num("PyInt", 3, 1))>>)>>]>>)]
HSaves == <<HOp("save", HT1, ".json", "", NoneV, HNoP), HOp("save", HT1, ".pickle", "", NoneV, HNoP),
            HOp("save", HT2, ".json", "", NoneV, HNoP)>>
HOthers == <<HOp("add", <<>>, "", "num", Num("PyInt", 7, 1), HNoP), HOp("setitem", <<>>, "", "num", Num("PyFloat", 1, 4), HNoP),
             HOp("add", <<>>, "", "str", Str("c{num}"), HNoP), HOp("add", <<>>, "", "zz", Num("PyInt", 1, 1), HNoP),
             HOp("setparams", <<>>, "", "", NoneV, HP1), HOp("upd", <<>>, "", "", Num("PyInt", 4, 1), HNoP),
             HOp("cur", <<>>, "", "", Num("PyInt", 5, 1), HNoP), HOp("reload", <<>>, "", "", NoneV, HNoP),
             HOp("mergeall", <<>>, "", "", NoneV, HNoP)>>      \* merge_all_results(deep copy of the object itself)
HOps == HSaves \o HOthers
Lookup(seq, key) == LET hit == {i \in 1..Len(seq) : seq[i].key = key} IN IF hit = {} THEN 0 ELSE CHOOSE i \in hit : TRUE
HStep(h, o) ==
  CASE o.op = "save" ->
         LET tkx  == WithExt(o.tk, o.ext)
             tt   == TemplateText(tkx)
             cur  == FileName(tkx, h.S.params)
             ci   == Lookup(h.cache, tt)
             nm   == IF Hyp.StaleNameCache /\ ci > 0 THEN h.cache[ci].name ELSE cur
             S2   == [h.S EXCEPT !.orig = Str("@DIR@/" \o tt)]
             ent  == [key |-> nm, S |-> S2, json |-> o.ext = ".json", cache |-> h.cache]
             di   == Lookup(h.disk, nm)
             c2   == IF ci > 0 THEN h.cache ELSE Append(h.cache, [key |-> tt, name |-> cur])
         IN  [S |-> S2, disk |-> IF di > 0 THEN [h.disk EXCEPT ![di] = ent] ELSE Append(h.disk, ent), cache |-> c2, last |-> nm,
              steps |-> Append(h.steps, [op |-> "save", template |-> TemplateText(o.tk \o <<Lit(o.ext)>>), name |-> nm, cur |-> cur])]
    [] o.op \in {"add", "setitem"} ->
         [h EXCEPT !.S.params = SetParam(@, o.name, o.val), !.steps = Append(@, [op |-> o.op, template |-> "", name |-> "", cur |-> ""])]
    [] o.op = "setparams" ->
         [h EXCEPT !.S.params = o.P, !.cache = <<>>, !.steps = Append(@, [op |-> o.op, template |-> "", name |-> "", cur |-> ""])]
    [] o.op = "upd" ->
         [h EXCEPT !.S.res = [i \in 1..Len(@) |-> [@[i] EXCEPT !.rs = [k \in 1..Len(@) |-> RUpd(@[k], U(o.val))]]],
                   !.steps = Append(@, [op |-> o.op, template |-> "", name |-> "", cur |-> ""])]
    [] o.op = "mergeall" ->
         [h EXCEPT !.S.res = [i \in 1..Len(@) |-> [@[i] EXCEPT !.rs = [k \in 1..Len(@) |->
                                  IF k = Len(@) THEN RMerge(@[k], @[k]) ELSE @[k]]]],
                   !.steps = Append(@, [op |-> o.op, template |-> "", name |-> "", cur |-> ""])]
    [] o.op = "cur" ->
         [h EXCEPT !.S.current = o.val.n, !.steps = Append(@, [op |-> o.op, template |-> "", name |-> "", cur |-> ""])]
    [] o.op = "reload" ->
         LET e == h.disk[Lookup(h.disk, h.last)]
         IN  [h EXCEPT !.S = e.S, !.cache = IF e.json THEN <<>> ELSE e.cache,
                       !.steps = Append(@, [op |-> o.op, template |-> "", name |-> h.last, cur |-> ""])]
RECURSIVE HFold(_, _)
HFold(ops, k) == IF k = 0 THEN [S |-> HS0, disk |-> <<>>, cache |-> <<>>, last |-> "", steps |-> <<>>]
                 ELSE HStep(HFold(ops, k - 1), ops[k])
\* what the directory holds after each prefix (name, saved object, format): the expectation of every step
HFiles(ops, k) == LET d == HFold(ops, k).disk IN [i \in 1..Len(d) |-> [name |-> d[i].key, S |-> d[i].S, json |-> d[i].json]]
HEnabled(ops) == \A k \in 1..Len(ops) : ops[k].op = "reload" => \E i \in 1..k - 1 : ops[i].op = "save"
SaveHistCase ==
  /\ c.kind = "init" /\ Family = "savehist"
  /\ \E len \in 1..(IF Thorough THEN 4 ELSE 3) : \E i \in 1..Len(HOps) ^ len :
        LET n == Len(HOps)
            ops == [k \in 1..len |-> HOps[(((i - 1) \div (n ^ (len - k))) % n) + 1]]
        IN  /\ Pick(i + len)
            /\ ops[len].op = "save" /\ HEnabled(ops)
            /\ c' = [kind |-> "savehist", id |-> <<len, i>>, S0 |-> HS0, rd0 |-> <<[name |-> "s", rs |-> <<MkR("s", SUMT, FALSE, <<U(Num("PyInt", 3, 1))>>)>>]>>,
                     ops |-> [k \in 1..len |-> [op |-> ops[k].op, name |-> ops[k].name, val |-> ops[k].val, P |-> ops[k].P]],
                     steps |-> HFold(ops, len).steps, files |-> [k \in 1..len |-> HFiles(ops, k)],
                     req |-> ReqFiles \cup {"SaveNameIsCurrent", "DirectoryIsWhatWasSaved"}]

\* FINE SCALARS (rel): values that differ only far down - tiny magnitudes, adjacent floats, 1e-13-scale
\* differences, large values differing in the last digits.  value = (n/d) * 10^b10 + k * 2^e2 * 10^e10; inside a
\* group only k varies, so two members are different numbers iff their k differ (exact, no big arithmetic needed).
\* Their decimal text has no small exact description, so the specification contributes the enumeration and the
\* REQUIRED RELATIONS (req), which the harness evaluates on the real names and files:
\*   NameDeterministic, NamesPairwiseDistinct, EachVariationLoadsBackItsOwn (all members saved through ONE template
\*   - as separate objects and as the unpacked variations of one array parameter - then every file loaded and
\*   compared with what was saved into it).
\* Premise checked by the harness (machinery failure otherwise): the members are different machine numbers.
FG(t, n, d, b10, e2, e10, ks) == [t |-> t, n |-> n, d |-> d, b10 |-> b10, b2 |-> 0, e2 |-> e2, e10 |-> e10, ks |-> ks]
\* members n * 2^b2 + k * 2^e2 : the limits of a width are never formed by TLC, only named
LG(t, n, b2, e2, ks) == [t |-> t, n |-> n, d |-> 1, b10 |-> 0, b2 |-> b2, e2 |-> e2, e10 |-> 0, ks |-> ks]
FineGroups ==
  << FG("PyFloat", 0, 1, 0, 0, -13, <<1, 2, 4, 5>>),          \* 1e-13 2e-13 4e-13 5e-13
     FG("NpFloat64", 0, 1, 0, 0, -13, <<1, 2, 4>>),
     FG("PyFloat", 0, 1, 0, 0, -20, <<1, 3, 10>>),
     FG("PyFloat", 0, 1, 0, 0, -300, <<1, 2>>),
     FG("PyFloat", 1, 2, 0, -53, 0, <<0, 1, 2, 256>>),         \* 0.5, the next two doubles, 0.5 + 2^-45
     FG("NpFloat64", 1, 2, 0, -53, 0, <<0, 1, 256>>),
     FG("PyFloat", -1, 2, 0, -53, 0, <<0, 1, 2>>),
     FG("PyFloat", 3, 10, 0, -54, 0, <<0, 1, 2>>),             \* 0.3, 0.30000000000000004, ...
     FG("PyFloat", 1, 1, 0, 0, -13, <<0, 1, 2, 5, 10>>),       \* 1, 1 + 1e-13, 1 + 2e-13, ...
     FG("PyFloat", 1, 1, 15, 0, 0, <<0, 1, 2>>),               \* 1e15, 1e15 + 1, 1e15 + 2
     FG("PyFloat", 123456789, 1, 3, -10, 0, <<0, 1, 3>>),      \* 123456789000 + k/1024
     FG("NpFloat32", 1, 2, 0, -24, 0, <<0, 1, 2>>),            \* adjacent float32
     FG("NpFloat32", 0, 1, 0, 0, -13, <<1, 2, 4>>),
     FG("NpFloat16", 1, 2, 0, -11, 0, <<0, 1>>),               \* adjacent float16
     FG("PyInt", 1, 1, 15, 0, 0, <<0, 1, 2, 10>>),             \* 10^15 + k
     FG("NpInt64", 9, 1, 17, 0, 0, <<0, 1, 7>>) >>             \* 9*10^17 + k
\* VALUES AT THE LIMITS OF A WIDTH (rel): largest / smallest members of every integer width, Python ints beyond 64
\* bits, largest finite and smallest subnormal floats of every float width, doubles needing 17 digits.  Required of the
\* implementation for each group (as a scalar parameter, inside a list, a set and an array): RoundTripExact (the
\* reloaded value IS the value, bit for bit), KindPreserved, TextIdempotent (second to_json = first), PickleExact.
LimitGroups ==
  << LG("NpUInt64", 1, 64, 0, <<-2, -1>>), LG("NpUInt64", 1, 63, 0, <<0, 1>>), LG("NpInt64", -1, 63, 0, <<0, 1>>),
     LG("NpInt64", 1, 63, 0, <<-2, -1>>), LG("NpInt32", -1, 31, 0, <<0, 1>>), LG("NpInt32", 1, 31, 0, <<-2, -1>>),
     LG("NpUInt32", 1, 32, 0, <<-2, -1>>), LG("NpInt16", -1, 15, 0, <<0, 1>>), LG("NpUInt16", 1, 16, 0, <<-2, -1>>),
     LG("NpInt8", -1, 7, 0, <<0, 1>>), LG("NpInt8", 1, 7, 0, <<-2, -1>>), LG("NpUInt8", 1, 8, 0, <<-2, -1>>),
     LG("PyInt", 1, 100, 0, <<-1, 0, 1>>), LG("PyInt", -1, 70, 0, <<0, 1>>), FG("PyInt", 1, 1, 30, 0, 0, <<0, 1>>),
     LG("PyInt", 1, 63, 0, <<-1, 0>>),
     LG("NpFloat32", 0, 0, 104, <<16777214, 16777215>>), LG("NpFloat32", 0, 0, -149, <<1, 2>>),
     LG("NpFloat16", 0, 0, 5, <<2046, 2047>>), LG("NpFloat16", 0, 0, -24, <<1, 3>>),
     LG("PyFloat", 0, 0, 993, <<2147483646, 2147483647>>), LG("PyFloat", 0, 0, -1074, <<1, 2, 3>>),
     LG("NpFloat64", 0, 0, 993, <<2147483646, 2147483647>>), LG("NpFloat64", 0, 0, -1074, <<1, 2>>),
     FG("PyFloat", 3, 10, 0, -54, 0, <<0, 1, 2>>), FG("NpFloat64", 1, 3, 0, -54, 0, <<0, 1>>) >>
LimitCase ==
  /\ c.kind = "init" /\ Family = "fname"
  /\ \E g \in 1..Len(LimitGroups) :
        /\ Pick(g)
        /\ c' = [kind |-> "limit", id |-> <<g>>, group |-> LimitGroups[g],
                 req |-> {"RoundTripExact", "KindPreserved", "TextIdempotent", "PickleExact"}]
FineTemplate == <<Lit("fine_"), Par("num"), Lit("_end")>>
FineCase ==
  /\ c.kind = "init" /\ Family = "fname"
  /\ \E g \in 1..Len(FineGroups) :
        /\ Pick(g)
        /\ c' = [kind |-> "fine", id |-> <<g>>, group |-> FineGroups[g], template |-> TemplateText(FineTemplate),
                 req |-> {"NameDeterministic", "NamesPairwiseDistinct", "EachVariationLoadsBackItsOwn"}]

FileNameCase ==
  /\ c.kind = "init" /\ Family = "fname"
  /\ \E i \in 1..Len(FnPool) : \E k \in 1..Len(FnPool) :
        /\ i <= k
        /\ Pick(i + k)
        /\ LET P1 == MkP(<<PV("num", FnPool[i])>>, {}, -1, <<>>)
               P2 == MkP(<<PV("num", FnPool[k])>>, {}, -1, <<>>)
           IN  c' = [kind |-> "fname", id |-> <<i, k>>, v1 |-> FnPool[i], v2 |-> FnPool[k],
                     template |-> TemplateText(FnTemplate),
                     n1 |-> FileName(FnTemplate, P1), n2 |-> FileName(FnTemplate, P2),
                     rel |-> IF FnPool[i].t = "NpBool" \/ FnPool[k].t = "NpBool" THEN {"NpBoolRaises"} ELSE {}]

Init == c = [kind |-> "init"]
Next == ValueCase \/ ParamsCase \/ UnpHistCase \/ ResultCase \/ ResultsCase \/ FieldsCase \/ SaveHistCase \/ FileNameCase \/ FineCase \/ LimitCase
Emit == EmitCase(c')

(* ==================================== the laws ================================================== *)
IsP == c.kind \in {"value", "params", "unphist"}
IsR == c.kind = "result"
IsS == c.kind \in {"results", "fields"}
Coded == IsP \/ IsR \/ IsS

EncodeTotal == Coded => ~c.encRaises
FileNameTotal == c.kind = "results" => ~c.fnameRaises      \* a file name exists for every supported parameter set
DecodeTotal == (IsR \/ IsS) => ~c.decRaises
RoundTripEq ==
  /\ IsP => PEq(c.back, c.P)
  /\ IsR => ResEq(c.back, c.st)
  /\ IsS => SEq(c.back, c.S)
RoundTripFaithful ==
  /\ IsP => PFaithful(c.back, c.P)
  /\ IsR => ResFaithful(c.back, c.st)
  /\ IsS => SFaithful(c.back, c.S)
DoubleRoundTrip == Coded => c.tree2 = c.tree
MarksOf(P, Q) == /\ Q.unpacked = P.unpacked /\ Q.index = P.index /\ Len(Q.parent) = Len(P.parent)
                 /\ Len(P.parent) = 1 => (PEq(Q.parent[1], P.parent[1]) /\ Q.parent[1].unpacked = P.parent[1].unpacked)
MarksPreserved ==
  /\ IsP => MarksOf(c.P, c.back)
  /\ IsS => MarksOf(c.S.params, c.back.params)
ChildLaw ==
  (c.kind = "params" /\ c.k >= 0) =>
     LET par == c.P.parent[1]
     IN  /\ c.P.index = c.k /\ c.P.unpacked = {} /\ c.k < NumVar(par)
         /\ Names(c.P) = Names(par)
         /\ \A nm \in Names(par) \ par.unpacked : Val(c.P, nm) = Val(par, nm)
         /\ \A nm \in par.unpacked : \E e \in 1..Len(Iter(Val(par, nm))) : Val(c.P, nm) = Iter(Val(par, nm))[e]
         \* distinct children are distinct combinations
         /\ \A k2 \in 0..NumVar(par) - 1 : k2 # c.k =>
               \E nm \in par.unpacked : LET u == UnpSeq(par) IN
                  \E i \in 1..Len(u) : u[i] = nm /\
                     (k2 \div ProdLens(par, SubSeq(u, i + 1, Len(u)))) % Len(Iter(Val(par, nm)))
                     # (c.k \div ProdLens(par, SubSeq(u, i + 1, Len(u)))) % Len(Iter(Val(par, nm)))
RECURSIVE SumData(_)
SumData(d) == IF d = <<>> THEN 0 ELSE Head(d)[1] + SumData(Tail(d))
StatsLaw ==
  IsR => /\ (\A i \in 1..Len(c.rd.hist) : c.rd.hist[i].op = "upd") => c.st.num = Len(c.rd.hist)
         /\ c.back.num = c.st.num
         /\ c.rd.type = CHOICET => (SumData(c.st.value.data) = c.st.total.n /\ c.st.total.n = c.st.num)
         /\ c.rd.acc /\ c.rd.type # MISCT => Len(c.st.vlist) = c.st.num
FileNameInjective ==
  c.kind = "fname" => ((Kind(c.v1) = "Str") = (Kind(c.v2) = "Str") /\ ~LibEq(c.v1, c.v2) => c.n1 # c.n2)
FileNameFunctional ==
  c.kind = "fname" => (Faithful(c.v1, c.v2) => c.n1 = c.n2)
TypeOK == c.kind \in {"init", "value", "params", "result", "results", "fields", "savehist", "fname", "fine", "limit", "unphist"}
\* every save of a history goes to the name the template has for the parameters as they are at that moment, and
\* what the saved files hold round-trips (the JSON ones through Enc / Dec)
SaveNameIsCurrent == c.kind = "savehist" => \A k \in 1..Len(c.steps) : c.steps[k].op = "save" => c.steps[k].name = c.steps[k].cur
SavedFilesRoundTrip ==
  c.kind = "savehist" => \A k \in 1..Len(c.files) : \A i \in 1..Len(c.files[k]) :
     LET S == c.files[k][i].S IN SFaithful(DecS(EncS(S, Dev), Dev), S)
\* members of a fine group are pairwise different numbers (k strictly increasing on one scale)
FinePoolOk == c.kind \in {"fine", "limit"} => \A i \in 1..Len(c.group.ks) - 1 : c.group.ks[i] < c.group.ks[i + 1]
=============================================================================
