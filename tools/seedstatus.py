#!/venv/bin/python
import json, glob, os
for d in sorted(glob.glob('/verif/seeded/*')):
    m = json.load(open(d + '/meta.json'))
    c = m.get('confirmed')
    if not c:
        print(os.path.basename(d), 'not confirmed yet'); continue
    chk = {k[6:]: v['exit'] for k, v in c.items() if k.startswith('check_')}
    same = c.get('tests_clean', '').split(' in ')[0] == c.get('tests_patched', '').split(' in ')[0]
    print(os.path.basename(d), 'demo', c['demo_clean_exit'], c['demo_patched_exit'], 'applies', c['patch_applies'], 'tests_same', same, 'check', chk,
          (list(c.values())[-1]['first'][-1][:150] if chk and list(c.values())[-1].get('first') else ''))
