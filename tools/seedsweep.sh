#!/bin/sh
# tools/seedsweep.sh "<ids>" "<seeds>" : run quick checks for several seeds, print exit codes
for p in $1; do for s in $2; do
  t0=$(date +%s)
  VERIF_SEED=$s VERIF_PROCS=${VERIF_PROCS:-4} timeout 1800 /verif/check $p --tier quick > /tmp/sweep-$p-$s.log 2>&1
  rc=$?
  echo "$p seed=$s exit=$rc wall=$(( $(date +%s) - t0 ))s $(grep -c '^VIOLATION' /tmp/sweep-$p-$s.log) violations $(grep -c '^KNOWN-FINDING' /tmp/sweep-$p-$s.log) known"
done; done
