#!/bin/sh
# tools/mkmutprompt.sh <Cxx> <round-tag>: fresh worktree /tmp/mut/<Cxx> at /repo HEAD, prompt /tmp/mut/<Cxx>.prompt<tag>.txt that
# holds ONLY the property text, the task and the summaries of the seeds produced so far (nothing else from /verif).
p=$1; tag=$2
mkdir -p /tmp/mut
git -C /repo worktree remove --force /tmp/mut/$p 2>/dev/null
rm -rf /tmp/mut/$p /tmp/mut/$p-out$tag
git -C /repo worktree prune
git -C /repo worktree add -q --detach /tmp/mut/$p HEAD
/venv/bin/python - $p $tag <<'PY'
import json, sys, glob
p, tag = sys.argv[1], sys.argv[2]
prop = next(json.loads(l) for l in open('/verif/properties.jsonl') if json.loads(l)['id'] == p)
sums = []
for d in sorted(glob.glob(f'/verif/seeded/{p}-m*'), key=lambda s: int(s.rsplit('m', 1)[1])):
    m = json.load(open(d + '/meta.json'))
    sums.append('- ' + m.get('summary', '')[:260].replace('\n', ' '))
txt = f"""You are helping to evaluate a verification tool by writing realistic "seeded defects" for the Python library pyphysim (physical-layer communication simulation). You work ONLY in the scratch git worktree at /tmp/mut/{p} (a checkout of the library; run Python as `/venv/bin/python` with `PYTHONPATH=/tmp/mut/{p}`; there is no network). Do not read or touch /verif or /repo.

The property under study (this text is all you get - find the relevant code yourself):

{p}: {prop['title']}

Statement: {prop['statement']}

Quantified over: {prop['quantifier']['text']}

Anchored in: {', '.join(prop['anchors']['files'])}


Task: produce THREE different, independent changes to the library source under /tmp/mut/{p}/pyphysim (never to the tests) such that each change, applied alone to a clean checkout:
 1. still imports/"compiles" and leaves the existing test suite's results unchanged: run `cd /tmp/mut/{p} && /venv/bin/python -m pytest -q -p no:cacheprovider -x --timeout=900 tests/<the relevant test modules>` before and after (everything that passed before must still pass; a few tests are randomly flaky on the clean tree too, e.g. mimo GMD/MRC ones, MaxSinr test_solve, ClosedForm test_solve_best_solution: re-run before blaming your change);
 2. BREAKS the property above - for some input, history, configuration or crash point the stated guarantee no longer holds;
 3. needs something SPECIFIC to manifest - a particular interleaving or multi-step sequence of calls, a fault/interruption at a particular point, an unusual input or configuration, or two cooperating sites that each look fine alone - not something ordinary use or a single obvious call would expose at once. Make them the kind of mistake a maintainer could plausibly make in a refactoring, an optimisation or a "robustness" patch, and make the three changes different in kind and location.

For each change i in 1..3 write into /tmp/mut/{p}-out{tag}/m<i>/ :
 - `patch.diff`: produced with `git -C /tmp/mut/{p} diff` (must apply with `git apply` on a clean checkout);
 - `demo.py`: a small self-contained program (run as `PYTHONPATH=<tree> /venv/bin/python demo.py`) that exits 0 on the clean tree and exits 1 (printing what went wrong) with the change applied - it demonstrates the violation of the property through the public API only;
 - `meta.json`: {{"property": "{p}", "summary": "...", "files_changed": [...], "needs_to_manifest": "...", "tests_run": "...the command(s)...", "tests_unchanged": true}}.
After writing each patch, reset the worktree (`git -C /tmp/mut/{p} checkout -- .`) and verify: demo passes on the clean tree, patch applies, demo fails with it, tests unchanged. Leave the worktree clean at the end. Never use `git stash` (worktrees share it); undo with `git checkout -- .`. Reply with a 5-line summary of the three changes.

IMPORTANT: {len(sums)} changes were already produced for this property by others; yours must be DIFFERENT in location and kind from these:
""" + '\n'.join(sums) + """
Aim at other clauses of the property statement and other code paths: other classes / methods / variants named in the statement, helper functions in other modules that the anchored code calls, other parameter regimes that still are inside the property's domain, error paths, state that survives across calls on the same object, interactions between two public calls, class-level or module-level state shared between objects.
"""
open(f'/tmp/mut/{p}.prompt{tag}.txt', 'w').write(txt)
print(p, len(sums), 'earlier seeds')
PY
