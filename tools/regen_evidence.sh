#!/bin/sh
# tools/regen_evidence.sh [ids...] : run the quick checks against /repo (seed 0) so that evidence/<id>.json is current
cd /verif
ids="$@"; [ -z "$ids" ] && ids="C01 C02 C03 C04 C05 C06 C07 C08 C09 C10 C11 C12 C13 C14 C15 C16 C17 C18 C19 C20 X01 X02"
for p in $ids; do
  t0=$(date +%s)
  VERIF_SEED=0 VERIF_PROCS=${VERIF_PROCS:-8} timeout 2400 ./check $p --tier quick > /tmp/regen-$p.log 2>&1
  echo "$p exit=$? wall=$(( $(date +%s) - t0 ))s $(tail -1 /tmp/regen-$p.log | cut -c1-160)"
done
