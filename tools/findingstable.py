#!/venv/bin/python
"""Render DESIGN.md section 12.3 (defects found) from known_findings.json between <!-- FINDINGS:BEGIN/END -->."""
import json
k = json.load(open('/verif/known_findings.json'))
rows = []
for f in sorted(k['findings'], key=lambda f: (f['property'], f['status'] != 'open', f['id'])):
    st = f"fixed ({f['commit']})" if f['status'] == 'fixed' else "**open known finding**" + (f" - {f.get('why_not_fixed', '')}" if f.get('why_not_fixed') else '')
    rows.append(f"| {f['property']} | `{f['id']}` | {f['what'].replace('|', '/')} | {st} |")
table = "| property | finding id | what failed (shortest behaviour) | status |\n|---|---|---|---|\n" + "\n".join(rows)
s = open('/verif/DESIGN.md').read()
a, b = s.index('<!-- FINDINGS:BEGIN -->'), s.index('<!-- FINDINGS:END -->')
s = s[:a] + '<!-- FINDINGS:BEGIN -->\n' + table + '\n' + s[b:]
open('/verif/DESIGN.md', 'w').write(s)
print(len(rows), 'findings')
