#!/venv/bin/python
"""tools/addfixed.py <property> <finding-id> <substring of the fix commit subject> <what failed>"""
import json, subprocess, sys
prop, fid, sub, what = sys.argv[1:5]
k = json.load(open('/verif/known_findings.json'))
log = subprocess.run("git -C /repo log --format='%h %s'", shell=True, capture_output=True, text=True).stdout.splitlines()
h = [l.split()[0] for l in log if sub in l]
assert len(h) == 1, (sub, h)
k['findings'] = [f for f in k['findings'] if not (f['property'] == prop and f['id'] == fid)]
k['findings'].append({"property": prop, "id": fid, "status": "fixed", "commit": h[0], "what": what})
k['fixed_log'] = [f"fixed: property={f['property']} {f['commit']} {f['what']}" for f in k['findings'] if f['status'] == 'fixed']
json.dump(k, open('/verif/known_findings.json', 'w'), indent=1)
print("recorded", prop, fid, h[0])
