#!/venv/bin/python
"""tools/seedtest.py <seed-id> [<property> ...] : apply /verif/seeded/<seed-id>/patch.diff in a fresh scratch
worktree of /repo HEAD, confirm the demonstration (passes clean, fails patched) and run the quick check(s)
against the patched tree (VERIF_REPO).  Prints one line per step; removes the worktree afterwards."""
import json, os, subprocess, sys, shutil, time
sid = sys.argv[1]
d = f"/verif/seeded/{sid}"
meta = json.load(open(f"{d}/meta.json"))
props = sys.argv[2:] or [meta["property"]]
wt = f"/tmp/seedwt-{sid}"
def sh(cmd, **kw):
    return subprocess.run(cmd, shell=True, stdout=subprocess.PIPE, stderr=subprocess.STDOUT, text=True, **kw)
sh(f"git -C /repo worktree remove --force {wt}")
r = sh(f"git -C /repo worktree add -q --detach {wt} HEAD")
assert r.returncode == 0, r.stdout
res = {"seed": sid, "repo_head": sh("git -C /repo rev-parse --short HEAD").stdout.strip()}
try:
    env = dict(os.environ, PYTHONPATH=wt)
    r0 = subprocess.run(["/venv/bin/python", f"{d}/demo.py"], env=env, cwd="/tmp", stdout=subprocess.PIPE, stderr=subprocess.STDOUT, text=True, timeout=600)
    res["demo_clean_exit"] = r0.returncode
    ra = sh(f"git -C {wt} apply {d}/patch.diff")
    res["patch_applies"] = ra.returncode == 0
    if ra.returncode != 0:
        print(ra.stdout)
    r1 = subprocess.run(["/venv/bin/python", f"{d}/demo.py"], env=env, cwd="/tmp", stdout=subprocess.PIPE, stderr=subprocess.STDOUT, text=True, timeout=600)
    res["demo_patched_exit"] = r1.returncode
    for p in props:
        t = time.time()
        rc = subprocess.run(["./check", p, "--tier", os.environ.get("SEED_TIER", "quick")], cwd="/verif", env=dict(os.environ, VERIF_REPO=wt),
                            stdout=subprocess.PIPE, stderr=subprocess.STDOUT, text=True, timeout=3600)
        lines = [l for l in rc.stdout.splitlines() if l.startswith("VIOLATION") or l.startswith("  detail")][:2]
        res[f"check_{p}"] = {"exit": rc.returncode, "wall": round(time.time() - t, 1), "first": lines}
finally:
    sh(f"git -C /repo worktree remove --force {wt}")
print(json.dumps(res, indent=1))
