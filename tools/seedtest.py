#!/venv/bin/python
"""tools/seedtest.py <seed-id> [<property> ...] : apply /verif/seeded/<seed-id>/patch.diff in a fresh scratch
worktree of /repo HEAD, confirm the demonstration (passes clean, fails patched) and run the quick check(s)
against the patched tree (VERIF_REPO).  Prints one line per step; removes the worktree afterwards."""
import json, os, subprocess, sys, shutil, time
record = "--record" in sys.argv
if record:
    sys.argv.remove("--record")
sid = sys.argv[1]
d = f"/verif/seeded/{sid}"
meta = json.load(open(f"{d}/meta.json"))
props = sys.argv[2:] or [meta["property"]]
wt = f"/tmp/seedwt-{sid}"
def sh(cmd, **kw):
    return subprocess.run(cmd, shell=True, stdout=subprocess.PIPE, stderr=subprocess.STDOUT, text=True, **kw)
sh(f"git -C /repo worktree remove --force {wt}")
r = sh(f"git -C /repo worktree add -q --detach {wt} HEAD")
assert r.returncode == 0, r.stdout
res = {"seed": sid, "repo_head": sh("git -C /repo rev-parse --short HEAD").stdout.strip()}
try:
    env = dict(os.environ, PYTHONPATH=wt)
    TESTS = {"C01": "modulators", "C02": "modulators", "C03": "channels", "C04": "mimo", "C05": "simulations", "C06": "simulations",
             "C07": "simulations", "C08": "channels", "C09": "comm", "C10": "ia", "C11": "channels", "C12": "comm", "C13": "channels", "C14": "channels",
             "C15": "modulators", "C16": "modulators", "C17": "simulations", "C18": "reference_signals", "C19": "cell", "C20": "util", "X02": "simulations", "X02a": "util", "X02b": "simulations"}
    tmod = f"tests/{TESTS[meta['property']]}_package_test.py"
    def run_tests():
        r = subprocess.run(["/venv/bin/python", "-m", "pytest", "-q", "-p", "no:cacheprovider", "-x", "--timeout=600", tmod], cwd=wt,
                           stdout=subprocess.PIPE, stderr=subprocess.STDOUT, text=True, timeout=1200)
        return r.stdout.strip().splitlines()[-1]
    res["tests_clean"] = run_tests()
    r0 = subprocess.run(["/venv/bin/python", f"{d}/demo.py"], env=env, cwd="/tmp", stdout=subprocess.PIPE, stderr=subprocess.STDOUT, text=True, timeout=600)
    res["demo_clean_exit"] = r0.returncode
    ra = sh(f"git -C {wt} apply {d}/patch.diff")
    if ra.returncode != 0:
        # the repository moved on under the seed (later `fix:` commits): three-way merge on the blobs the patch names
        ra3 = sh(f"git -C {wt} apply -3 {d}/patch.diff")
        conflict = sh(f"git -C {wt} diff --name-only --diff-filter=U").stdout.strip()
        if ra3.returncode == 0 and not conflict:
            res["patch_applied_3way"] = True
            ra = ra3
            sh(f"git -C {wt} reset -q")          # keep the change in the working tree only
        else:
            sh(f"git -C {wt} checkout -q -f HEAD -- .")
    res["patch_applies"] = ra.returncode == 0
    if ra.returncode != 0:
        print(ra.stdout)
    r1 = subprocess.run(["/venv/bin/python", f"{d}/demo.py"], env=env, cwd="/tmp", stdout=subprocess.PIPE, stderr=subprocess.STDOUT, text=True, timeout=600)
    res["demo_patched_exit"] = r1.returncode
    res["tests_patched"] = run_tests()
    for p in props:
        t = time.time()
        rc = subprocess.run(["./check", p, "--tier", os.environ.get("SEED_TIER", "quick")], cwd="/verif", env=dict(os.environ, VERIF_REPO=wt),
                            stdout=subprocess.PIPE, stderr=subprocess.STDOUT, text=True, timeout=3600)
        lines = [l for l in rc.stdout.splitlines() if l.startswith("VIOLATION") or l.startswith("  detail")][:2]
        res[f"check_{p}"] = {"exit": rc.returncode, "wall": round(time.time() - t, 1), "first": lines}
finally:
    sh(f"git -C /repo worktree remove --force {wt}")
print(json.dumps(res, indent=1))
if record:
    meta["confirmed"] = res
    json.dump(meta, open(f"{d}/meta.json", "w"), indent=1)
