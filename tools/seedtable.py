#!/venv/bin/python
"""Render the table of seeded changes (DESIGN.md section 12.4) from /verif/seeded/*/meta.json and splice it into
DESIGN.md between the markers <!-- SEEDS:BEGIN --> and <!-- SEEDS:END -->."""
import json, glob, os, re
rows = []
for d in sorted(glob.glob('/verif/seeded/*'), key=lambda x: (os.path.basename(x).split('-')[0], int(os.path.basename(x).split('-m')[1]))):
    m = json.load(open(d + '/meta.json'))
    sid = os.path.basename(d)
    c = m.get('confirmed') or {}
    chk = {k[6:]: v for k, v in c.items() if k.startswith('check_')}
    summ = re.sub(r'\s+', ' ', m.get('summary', '')).strip()
    summ = summ[:230] + ('...' if len(summ) > 230 else '')
    summ = summ.replace('|', '/')
    if not c:
        status = 'not confirmed yet'
    else:
        parts = []
        for p, v in chk.items():
            first = (v.get('first') or ['', ''])[-1].replace('detail:', '').strip()[:110].replace('|', '/')
            parts.append(f"{p}: {'**caught**' if v['exit'] == 1 else ('MISSED' if v['exit'] == 0 else 'exit ' + str(v['exit']))}" + (f" ({first})" if v['exit'] == 1 and first else ''))
        for p, v in (m.get('also_caught_by') or {}).items():
            parts.append(f"{p}: **caught** ({v})")
        status = '; '.join(parts)
        if c.get('demo_patched_exit') == 0:
            status += ' - demonstration no longer fails on the current HEAD'
    note = m.get('coordinator_note', '')
    rows.append(f"| {sid} | {summ} | {status}{' - ' + note if note else ''} |")
table = "| seed | change (author's summary) | quick check on the patched tree |\n|---|---|---|\n" + "\n".join(rows)
s = open('/verif/DESIGN.md').read()
a, b = s.index('<!-- SEEDS:BEGIN -->'), s.index('<!-- SEEDS:END -->')
s = s[:a] + '<!-- SEEDS:BEGIN -->\n' + table + '\n' + s[b:]
open('/verif/DESIGN.md', 'w').write(s)
print(len(rows), 'rows')
