#!/bin/sh
# /tmp/mut/Cxx-out4/m1..m3 -> seeded/Cxx-m10..m12
p=$1; i=10
for m in m1 m2 m3; do
  if [ -f /tmp/mut/$p-out4/$m/patch.diff ]; then
    d=/verif/seeded/$p-m$i; mkdir -p $d
    cp /tmp/mut/$p-out4/$m/patch.diff /tmp/mut/$p-out4/$m/demo.py /tmp/mut/$p-out4/$m/meta.json $d/
    echo imported $p-m$i
  fi
  i=$((i+1))
done
