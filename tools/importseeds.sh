#!/bin/sh
# tools/importseeds.sh Cxx : copy /tmp/mut/Cxx-out/m*/ into /verif/seeded/Cxx-m*/
p=$1
for m in m1 m2 m3; do
  if [ -f /tmp/mut/$p-out/$m/patch.diff ]; then
    d=/verif/seeded/$p-$m; mkdir -p $d
    cp /tmp/mut/$p-out/$m/patch.diff /tmp/mut/$p-out/$m/demo.py /tmp/mut/$p-out/$m/meta.json $d/
    echo imported $p-$m
  fi
done
git -C /repo worktree remove --force /tmp/mut/$p 2>/dev/null
