#!/bin/sh
# tools/importseedsN.sh <Cxx> <tag>: /tmp/mut/<Cxx>-out<tag>/m1..m3 -> seeded/<Cxx>-m<next free numbers>; removes the worktree
p=$1; tag=$2
n=$(ls -d /verif/seeded/$p-m* 2>/dev/null | sed 's/.*-m//' | sort -n | tail -1); n=${n:-0}
for m in m1 m2 m3; do
  if [ -f /tmp/mut/$p-out$tag/$m/patch.diff ]; then
    n=$((n+1)); d=/verif/seeded/$p-m$n; mkdir -p $d
    cp /tmp/mut/$p-out$tag/$m/patch.diff /tmp/mut/$p-out$tag/$m/demo.py /tmp/mut/$p-out$tag/$m/meta.json $d/
    echo imported $p-m$n
  fi
done
git -C /repo worktree remove --force /tmp/mut/$p 2>/dev/null
