#!/venv/bin/python
"""Assemble MANIFEST.json from manifest.d/*.json fragments (one per claimed property)
and validate it against the schema.  Properties without a fragment are listed under
not_applicable with the reason in manifest.d/_not_applicable.json."""
import json, glob, os, sys
root = os.path.dirname(os.path.dirname(os.path.abspath(__file__)))
props = [json.loads(l)["id"] for l in open(os.path.join(root, "properties.jsonl"))]
na = json.load(open(os.path.join(root, "manifest.d", "_not_applicable.json")))
base = json.load(open(os.path.join(root, "manifest.d", "_base.json")))
checks = []
enabled = json.load(open(os.path.join(root, "manifest.d", "_enabled.json")))   # reviewed by the coordinator
for f in sorted(glob.glob(os.path.join(root, "manifest.d", "C*.json"))):
    c = json.load(open(f))
    if c["property_id"] in enabled:
        checks.append(c)
claimed = {c["property_id"] for c in checks}
base["checks"] = checks
base["not_applicable"] = [{"property_id": p, "reason": na.get(p, "check not built yet in this round")}
                          for p in props if p not in claimed]
for e in base.get("engines", []):
    e["serves_properties"] = sorted(claimed)
json.dump(base, open(os.path.join(root, "MANIFEST.json"), "w"), indent=1)
import jsonschema
jsonschema.validate(base, json.load(open("/root/.vp/MANIFEST.schema.json")))
print("MANIFEST.json ok:", len(checks), "checks;", len(base["not_applicable"]), "not applicable")
