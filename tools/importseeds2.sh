#!/bin/sh
# tools/importseeds2.sh Cxx : copy /tmp/mut/Cxx-out2/m1..3 into /verif/seeded/Cxx-m4..6
p=$1; i=4
for m in m1 m2 m3; do
  if [ -f /tmp/mut/$p-out2/$m/patch.diff ]; then
    d=/verif/seeded/$p-m$i; mkdir -p $d
    cp /tmp/mut/$p-out2/$m/patch.diff /tmp/mut/$p-out2/$m/demo.py /tmp/mut/$p-out2/$m/meta.json $d/
    echo imported $p-m$i
  fi
  i=$((i+1))
done
